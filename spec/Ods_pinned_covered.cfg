SPECIFICATION Spec
CONSTANTS
  Chars <- SmallChars
  MaxRows = 2
  MaxCells = 2
  MaxLen = 1
  FeatureSets <- SomeFeatures
  Sheets <- OneSheet
  CollectAllText = TRUE
  ExpandRowRepeats = TRUE
  DescendsIntoRowContainers = TRUE
  ReadsCoveredCells = FALSE
INVARIANT TypeOK
INVARIANT ReadsTheLogicalTable
INVARIANT MissingSheetIsRefused
INVARIANT Emit
CHECK_DEADLOCK FALSE
