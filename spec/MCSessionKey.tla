---------------------------- MODULE MCSessionKey ----------------------------
(* key alphabets so that duplicates occur at every pair of positions, rejected rows interleaved (C05) *)
EXTENDS MCSessionBase
CONSTANT MaxRows
KeyRows == {R(1,1), R(1,2), R(2,1), R(2,2), Bad1, Short}
TheTables == {T(r) : r \in SeqsUpTo(KeyRows, MaxRows)}
\* the counterexample data of D12 (two vetoing checks)
UUTables == { T(<<R(1,1), R(2,1), R(2,3)>>) }
=============================================================================
