---------------------------- MODULE MCSessionCalls ----------------------------
(* rows over all four cell classes, for the call protocol (C20) *)
EXTENDS MCSessionBase
CONSTANT MaxRows
C(a, b, v) == [w |-> "ok", c |-> <<a, b>>, v |-> <<v, 1>>]
CallRows == {C(a, b, 1) : a \in {"ok", "rej", "emp", "grd"}, b \in {"ok", "rej", "grd"}}
            \cup {C("ok", b, 2) : b \in {"ok", "rej", "grd"}} \cup {Short, Long}
TheTables == {T(r) : r \in SeqsUpTo(CallRows, MaxRows)}
=============================================================================
