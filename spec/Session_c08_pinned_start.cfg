\* generated by tools/gen_cfgs.py; root module: MCSessionHist
SPECIFICATION Spec
CONSTANTS
  MaxRows = 0
  NFields = 2
  Checks <- HChecks
  Header = 0
  Tables <- TheTables
  Modes <- AllModes
  Limits <- NoLimit
  Apis = {"reader"}
  Ends = {"close", "forget"}
  Writers = TRUE
  MaxOps = 2
  Rereads = FALSE
  Parking = TRUE
  ResetOnOpen = TRUE
  ResetOnStart = FALSE
  RegisterOnReach = FALSE
  RegisterBeforeWrite = FALSE
  EndChecksOnError = FALSE
  LogCalls = FALSE
INVARIANT TypeOK
INVARIANT HistoryIndependence
PROPERTY ChecksOnlyChangeInsideASession
CHECK_DEADLOCK FALSE
