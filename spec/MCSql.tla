-------------------------------- MODULE MCSql --------------------------------
EXTENDS Sql
AllDialects == {"ansi", "pl", "tsql", "db2"}
P(neg, k, d) == [neg |-> neg, k |-> k, d |-> d]
\* +-(2^k + d) around every type boundary, and a few small numbers
Boundary == {P(n, k, d) : n \in BOOLEAN, k \in {7, 8, 15, 16, 31, 32, 63}, d \in -2..2}
Small == {P(FALSE, 0, 0), P(FALSE, 0, 9), P(TRUE, 0, 1), P(TRUE, 0, 50), P(FALSE, 0, 99)}
Nums == Boundary \cup Small
F(t, name, e, len, digits, frac) == [t |-> t, name |-> name, empty |-> e, len |-> len, digits |-> digits, frac |-> frac]
Others == {F("Text", "customer_id", FALSE, <<>>, 0, 0), F("Text", "select", TRUE, <<40>>, 0, 0), F("Choice", "comment", FALSE, <<>>, 0, 0),
           F("Decimal", "window", FALSE, <<>>, 5, 2), F("Decimal", "limit", TRUE, <<>>, 9, 0), F("DateTime", "key", TRUE, <<>>, 0, 0),
           F("Pattern", "percent", FALSE, <<7>>, 0, 0), F("Text", "audit", TRUE, <<3>>, 0, 0)}
=============================================================================
