-------------------------------- MODULE MCSql --------------------------------
EXTENDS Sql
AllDialects == {"ansi", "pl", "tsql", "db2"}
P(neg, k, d) == [neg |-> neg, k |-> k, d |-> d]
\* +-(2^k + d) around every type boundary, and a few small numbers
Boundary == {P(n, k, d) : n \in BOOLEAN, k \in {7, 8, 15, 16, 31, 32, 63}, d \in -2..2}
Small == {P(FALSE, 0, 0), P(FALSE, 0, 9), P(TRUE, 0, 1), P(TRUE, 0, 50), P(FALSE, 0, 99)}
Nums == Boundary \cup Small
F(t, name, e, len, limits) == [t |-> t, name |-> name, empty |-> e, len |-> len, limits |-> limits, minzero |-> FALSE]
NoLim == << <<0, 0>> >>
\* a length written with the explicit lower limit 0 ("0...5"): whether the field may be empty is the mark's business alone
Z(t, name, e, len) == [t |-> t, name |-> name, empty |-> e, len |-> len, limits |-> NoLim, minzero |-> TRUE]
Others == {F("Text", "customer_id", FALSE, <<>>, NoLim), F("Text", "select", TRUE, <<40>>, NoLim), F("Choice", "comment", FALSE, <<>>, NoLim),
           F("DateTime", "key", TRUE, <<>>, NoLim), F("Pattern", "percent", FALSE, <<7>>, NoLim), F("Text", "audit", TRUE, <<3>>, NoLim),
           F("Text", "order", FALSE, <<12>>, NoLim), Z("Text", "code", FALSE, <<5>>), Z("Choice", "grade", TRUE, <<8>>)}
      \cup {F("Decimal", "window", FALSE, <<>>, << <<1, 0>>, <<3, 2>> >>), F("Decimal", "limit", TRUE, <<>>, << <<1, 0>>, <<9, 0>> >>),
            F("Decimal", "amount", FALSE, <<>>, << <<1, 3>>, <<2, 0>> >>), F("Decimal", "rate", TRUE, <<>>, << <<0, 2>>, <<0, 4>> >>),
            F("Decimal", "weight", FALSE, <<>>, << <<2, 1>>, <<5, 1>> >>)}
=============================================================================
