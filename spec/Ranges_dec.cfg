SPECIFICATION Spec
CONSTANTS
  Lim <- DLim
  Probe <- DProbe
  MaxItems = 2
  Spellings <- QSpell
INVARIANT TypeOK
INVARIANT WellFormedAccepted
INVARIANT MeansWhatItSays
INVARIANT Emit
CHECK_DEADLOCK FALSE
