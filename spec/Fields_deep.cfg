SPECIFICATION Spec
CONSTANTS
  Formats <- AllFormats
  LengthDecls <- DeepDecls
  FixedWidths <- DeepWidths
  MaxCell = 6
  StripBeforeEmptyGuard = TRUE
INVARIANT TypeOK
INVARIANT GuardsHold
INVARIANT Emit
CHECK_DEADLOCK FALSE
