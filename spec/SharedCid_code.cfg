SPECIFICATION Spec
CONSTANTS
  Keys <- TwoKeys
  MaxRows = 2
  BKinds <- BothKinds
  ChecksPerSession = FALSE
INVARIANT TypeOK
INVARIANT Emit
CHECK_DEADLOCK FALSE
