---------------------------- MODULE MCSessionOne ----------------------------
(* a CID with ONE field that may be empty: an empty line is a row without any item (C04) *)
EXTENDS MCSessionBase
CONSTANT MaxRows
One(a) == [w |-> "ok", c |-> <<"ok">>, v |-> <<a>>]
OneBad == [w |-> "ok", c |-> <<"rej">>, v |-> <<1>>]
NoItems == [w |-> "short", c |-> <<>>, v |-> <<>>]
TwoItems == [w |-> "long", c |-> <<"ok", "ok">>, v |-> <<1, 1>>]
TheTables == {T(r) : r \in SeqsUpTo({One(1), One(2), OneBad, NoItems, TwoItems}, MaxRows)}
U1D == << [t |-> "u", key |-> <<1>>], [t |-> "d", f |-> 1, op |-> "le", n |-> 2] >>
=============================================================================
