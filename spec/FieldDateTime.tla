--------------------------- MODULE FieldDateTime ---------------------------
(***************************************************************************)
(* DateTime fields (part of property C02): cutplace/fields.py:530-594.     *)
(*                                                                         *)
(* cutplace's own mechanism is the translation of the human readable rule  *)
(* (DD MM YYYY YY hh mm ss) into a strptime format by ORDERED textual      *)
(* replacements ("%" first, "YYYY" before "YY"); it is transcribed at      *)
(* character level, one action per replacement.  time.strptime itself is   *)
(* modelled for zero-padded cells (fixed-width digit groups, literal       *)
(* separators, calendar validity); the harness compares that model with    *)
(* the running interpreter's time.strptime on every behaviour, a           *)
(* difference there is a machinery failure.                                *)
(*                                                                         *)
(* Denotation (from the property text): the cell is accepted iff it spells *)
(* a real calendar date / time of day in the layout of the rule; the       *)
(* native value is the time tuple it denotes.                              *)
(***************************************************************************)
EXTENDS Integers, Sequences, FiniteSets, TLC, Json

CONSTANTS Layouts,      \* set of layouts: sequences of parts "DD" "MM" "YYYY" "YY" "hh" "mm" "ss" or a separator character
          Days, Months, Years4, Years2, Hours, Minutes, Seconds,   \* component values tried (also impossible ones)
          Excel,        \* BOOLEAN: the data format is excel (a trailing " 00:00:00" is dropped for date-only rules)
          OnePassTranslation   \* TRUE (shipped): the rule is translated in one pass from left to right, a character that
                               \* belongs to a translated placeholder is never looked at again; FALSE: pinned code, eight
                               \* str.replace calls one after the other -- the "m" of "%m" (month) and a following "m" are
                               \* taken for minutes (D71)

Parts == {"DD", "MM", "YYYY", "YY", "hh", "mm", "ss"}
DigitChar == <<"0", "1", "2", "3", "4", "5", "6", "7", "8", "9">>
IsDigit(c) == \E d \in 1..10 : DigitChar[d] = c
DigitOf(c) == (CHOOSE d \in 1..10 : DigitChar[d] = c) - 1
Chars(s) == CASE s = "DD" -> <<"D", "D">> [] s = "MM" -> <<"M", "M">> [] s = "YYYY" -> <<"Y", "Y", "Y", "Y">>
              [] s = "YY" -> <<"Y", "Y">> [] s = "hh" -> <<"h", "h">> [] s = "mm" -> <<"m", "m">> [] s = "ss" -> <<"s", "s">>
              [] OTHER -> <<s>>
RECURSIVE RuleText(_)
RuleText(layout) == IF layout = <<>> THEN <<>> ELSE Chars(Head(layout)) \o RuleText(Tail(layout))
TwoDigits(n) == <<DigitChar[(n \div 10) + 1], DigitChar[(n % 10) + 1]>>
FourDigits(n) == TwoDigits(n \div 100) \o TwoDigits(n % 100)

(* ------------------------- values and the cell that spells them ------------------------- *)
\* v = [D, M, Y, h, m, s]; Y is the 4-digit year or the 2-digit one, depending on the layout
RECURSIVE CellText(_, _)
CellText(layout, v) ==
  IF layout = <<>> THEN <<>>
  ELSE (CASE Head(layout) = "DD" -> TwoDigits(v.D) [] Head(layout) = "MM" -> TwoDigits(v.M)
          [] Head(layout) = "YYYY" -> FourDigits(v.Y) [] Head(layout) = "YY" -> TwoDigits(v.Y)
          [] Head(layout) = "hh" -> TwoDigits(v.h) [] Head(layout) = "mm" -> TwoDigits(v.m)
          [] Head(layout) = "ss" -> TwoDigits(v.s) [] OTHER -> <<Head(layout)>>) \o CellText(Tail(layout), v)
Has(layout, p) == \E i \in 1..Len(layout) : layout[i] = p

(* ------------------------------ the calendar ------------------------------ *)
IsLeap(y) == (y % 4 = 0 /\ y % 100 # 0) \/ y % 400 = 0
DaysIn(y, m) == IF m \in {4, 6, 9, 11} THEN 30 ELSE IF m = 2 THEN (IF IsLeap(y) THEN 29 ELSE 28) ELSE 31
FullYear(layout, y) == IF Has(layout, "YYYY") THEN y ELSE IF Has(layout, "YY") THEN (IF y <= 68 THEN 2000 + y ELSE 1900 + y) ELSE 1900
\* what the cell denotes: a real date and time of day?
Real(layout, v) ==
  LET y == FullYear(layout, v.Y)
      m == IF Has(layout, "MM") THEN v.M ELSE 1
      d == IF Has(layout, "DD") THEN v.D ELSE 1
      \* without a year in the layout 29 February is a real day (of some year)
      yd == IF Has(layout, "YYYY") \/ Has(layout, "YY") THEN y ELSE 1904
  IN /\ (Has(layout, "YYYY") => y >= 1)
     /\ m \in 1..12 /\ d >= 1 /\ d <= DaysIn(yd, IF m \in 1..12 THEN m ELSE 1)
     /\ (Has(layout, "hh") => v.h \in 0..23) /\ (Has(layout, "mm") => v.m \in 0..59) /\ (Has(layout, "ss") => v.s \in 0..61)
Tuple(layout, v) == <<FullYear(layout, v.Y), IF Has(layout, "MM") THEN v.M ELSE 1, IF Has(layout, "DD") THEN v.D ELSE 1,
                      IF Has(layout, "hh") THEN v.h ELSE 0, IF Has(layout, "mm") THEN v.m ELSE 0, IF Has(layout, "ss") THEN v.s ELSE 0>>

(* ------------------------------ the machine ------------------------------ *)
VARIABLES layout, vals, mutation,   \* the case: layout, component values, and "none" | "sep" | "letter" | "xsuffix"
          fmt,                      \* the strptime format under construction (characters)
          step,                     \* replacements applied so far
          cell, outcome             \* outcome: <<>> | <<"accept", tuple>> | <<"reject">>
vars == <<layout, vals, mutation, fmt, step, cell, outcome>>

\* fields.py:537-546, in this order
Table == << << <<"%">>, <<"%", "%">> >>, << <<"D", "D">>, <<"%", "d">> >>, << <<"M", "M">>, <<"%", "m">> >>,
            << <<"Y", "Y", "Y", "Y">>, <<"%", "Y">> >>, << <<"Y", "Y">>, <<"%", "y">> >>, << <<"h", "h">>, <<"%", "H">> >>,
            << <<"m", "m">>, <<"%", "M">> >>, << <<"s", "s">>, <<"%", "S">> >> >>
\* str.replace: left to right, non-overlapping
RECURSIVE Replace(_, _, _)
Replace(t, pat, rep) == IF Len(t) < Len(pat) THEN t
                        ELSE IF SubSeq(t, 1, Len(pat)) = pat THEN rep \o Replace(SubSeq(t, Len(pat) + 1, Len(t)), pat, rep)
                        ELSE <<Head(t)>> \o Replace(Tail(t), pat, rep)

Values == [D : Days, M : Months, Y : Years4 \cup Years2, h : Hours, m : Minutes, s : Seconds]
\* only the components the layout uses vary; the others stay at a fixed valid value
\* (the fixed values have to be members of the configured sets: with a value outside them the layouts that lack the component
\* have no initial state at all -- a vacuity the first version of this module had, see DESIGN.md section 12)
Relevant(l, v) == /\ (Has(l, "DD") \/ v.D = 1) /\ (Has(l, "MM") \/ v.M = 1)
                  /\ (IF Has(l, "YYYY") THEN v.Y \in Years4 ELSE IF Has(l, "YY") THEN v.Y \in Years2 ELSE v.Y = 20)
                  /\ (Has(l, "hh") \/ v.h = 0) /\ (Has(l, "mm") \/ v.m = 0) /\ (Has(l, "ss") \/ v.s = 0)
\* every layout has cases (vacuity guard, checked by TLC as ASSUME)
EveryLayoutHasCases == \A l \in Layouts : \E v \in Values : Relevant(l, v)
ASSUME EveryLayoutHasCases
Mutations == {"none", "sep", "letter", "xsuffix"}
SepIdx(l) == {i \in 1..Len(l) : l[i] \notin Parts}
Applicable(l, mu) == CASE mu = "sep" -> SepIdx(l) # {} [] mu = "xsuffix" -> TRUE [] OTHER -> TRUE
\* the cell: the values spelled in the layout, then possibly one mutation
Mutated(l, v, mu) ==
  LET text == CellText(l, v) IN
  CASE mu = "none" -> text
    [] mu = "sep" -> LET RECURSIVE Swap(_, _)
                         Swap(ly, done) == IF ly = <<>> THEN <<>>
                                           ELSE IF Head(ly) \notin Parts /\ ~done
                                                THEN CellText(<<IF Head(ly) = "#" THEN ";" ELSE "#">>, v) \o Swap(Tail(ly), TRUE)
                                                ELSE CellText(<<Head(ly)>>, v) \o Swap(Tail(ly), done)
                     IN Swap(l, FALSE)
    [] mu = "letter" -> [text EXCEPT ![Len(text)] = "x"]
    [] mu = "xsuffix" -> text \o <<" ", "0", "0", ":", "0", "0", ":", "0", "0">>

Init == /\ layout \in Layouts /\ vals \in {v \in Values : Relevant(layout, v)}
        /\ mutation \in {mu \in Mutations : Applicable(layout, mu)}
        /\ (mutation # "none" => Real(layout, vals))            \* mutate valid cells only
        /\ fmt = RuleText(layout) /\ step = 0 /\ cell = Mutated(layout, vals, mutation) /\ outcome = <<>>

\* one pass: at every position the first entry of the table that matches is translated, its result is not scanned again
MinOf(S) == CHOOSE m \in S : \A o \in S : m <= o
RECURSIVE OnePass(_)
OnePass(t) == IF t = <<>> THEN <<>>
              ELSE LET hits == {i \in 1..Len(Table) : Len(t) >= Len(Table[i][1]) /\ SubSeq(t, 1, Len(Table[i][1])) = Table[i][1]} IN
                   IF hits = {} THEN <<Head(t)>> \o OnePass(Tail(t))
                   ELSE Table[MinOf(hits)][2] \o OnePass(SubSeq(t, Len(Table[MinOf(hits)][1]) + 1, Len(t)))
\* fields.py, DateTimeFieldFormat.__init__: the translation of the rule (pinned code: one replacement per step)
ApplyReplacement ==
  /\ step < Len(Table)
  /\ IF OnePassTranslation THEN fmt' = OnePass(fmt) /\ step' = Len(Table)
     ELSE fmt' = Replace(fmt, Table[step + 1][1], Table[step + 1][2]) /\ step' = step + 1
  /\ UNCHANGED <<layout, vals, mutation, cell, outcome>>

\* time.strptime for zero-padded input: fixed-width digit groups, literals must match, everything consumed
Width(d) == IF d = "Y" THEN 4 ELSE 2
RECURSIVE Scan(_, _, _)
Scan(f, c, got) ==   \* got: function directive letter -> number
  IF f = <<>> THEN (IF c = <<>> THEN <<"ok", got>> ELSE <<"err">>)
  ELSE IF Head(f) = "%" /\ Len(f) >= 2
       THEN IF f[2] = "%" THEN (IF c # <<>> /\ Head(c) = "%" THEN Scan(Tail(Tail(f)), Tail(c), got) ELSE <<"err">>)
            ELSE LET w == Width(f[2]) IN
                 IF Len(c) < w \/ \E i \in 1..w : ~IsDigit(c[i]) THEN <<"err">>
                 ELSE LET n == IF w = 4 THEN 1000 * DigitOf(c[1]) + 100 * DigitOf(c[2]) + 10 * DigitOf(c[3]) + DigitOf(c[4])
                                         ELSE 10 * DigitOf(c[1]) + DigitOf(c[2])
                      IN Scan(Tail(Tail(f)), SubSeq(c, w + 1, Len(c)), [got EXCEPT ![f[2]] = <<n>>])
       ELSE IF c # <<>> /\ Head(c) = Head(f) THEN Scan(Tail(f), Tail(c), got) ELSE <<"err">>
NoneGot == [d \in {"d", "m", "Y", "y", "H", "M", "S"} |-> <<>>]
Opt(o, default) == IF o = <<>> THEN default ELSE o[1]
HasTime(f) == \E i \in 1..(Len(f) - 1) : f[i] = "%" /\ f[i + 1] \in {"H", "M", "S"}
\* fields.py:570-594
Validate ==
  /\ step = Len(Table) /\ outcome = <<>>
  /\ LET c == IF ~HasTime(fmt) /\ Excel /\ Len(cell) >= 9 /\ SubSeq(cell, Len(cell) - 8, Len(cell)) = <<" ", "0", "0", ":", "0", "0", ":", "0", "0">>
              THEN SubSeq(cell, 1, Len(cell) - 9) ELSE cell
         r == Scan(fmt, c, NoneGot)
     IN IF r[1] = "err" THEN outcome' = <<"reject">>
        ELSE LET g == r[2]
                 y == IF g["Y"] # <<>> THEN g["Y"][1] ELSE IF g["y"] # <<>> THEN (IF g["y"][1] <= 68 THEN 2000 + g["y"][1] ELSE 1900 + g["y"][1]) ELSE 1900
                 m == Opt(g["m"], 1)
                 d == Opt(g["d"], 1)
                 yd == IF g["Y"] # <<>> \/ g["y"] # <<>> THEN y ELSE 1904      \* (_strptime.py: 29 February without a year is taken as a day of 1904, the result says 1900)
                 ok == /\ (g["Y"] # <<>> => y >= 1) /\ m \in 1..12 /\ d >= 1 /\ d <= DaysIn(yd, IF m \in 1..12 THEN m ELSE 1)
                       /\ Opt(g["H"], 0) \in 0..23 /\ Opt(g["M"], 0) \in 0..59 /\ Opt(g["S"], 0) \in 0..61
             IN outcome' = IF ok THEN <<"accept", <<y, m, d, Opt(g["H"], 0), Opt(g["M"], 0), Opt(g["S"], 0)>> >> ELSE <<"reject">>
  /\ UNCHANGED <<layout, vals, mutation, fmt, step, cell>>
Next == ApplyReplacement \/ Validate
Spec == Init /\ [][Next]_vars

(* ------------------------------ C02 (DateTime) ------------------------------ *)
Expected == IF mutation \in {"sep", "letter"} THEN <<"reject">>
            ELSE IF mutation = "xsuffix" THEN (IF Excel /\ ~(Has(layout, "hh") \/ Has(layout, "mm") \/ Has(layout, "ss"))
                                                THEN <<"accept", Tuple(layout, vals)>> ELSE <<"reject">>)
            ELSE IF Real(layout, vals) THEN <<"accept", Tuple(layout, vals)>> ELSE <<"reject">>
DateMeansWhatItSays == outcome # <<>> => outcome = Expected
TypeOK == step \in 0..Len(Table)
Emit == outcome # <<>> =>
   PrintT(<<"VEC", ToJson([layout |-> layout, rule |-> RuleText(layout), cell |-> cell, fmt |-> fmt, mutation |-> mutation,
                            outcome |-> outcome, expected |-> Expected, excel |-> Excel])>>)
=============================================================================
