\* the same command lines written in other ways: options that must not change the verdict
SPECIFICATION Spec
CONSTANTS
  CidStates <- AllCids
  FileKinds <- SomeKinds
  MaxFiles = 2
  Untils <- SomeUntils
  Headers <- NoHeader
  Decorations <- AllDecorations
  ArgStates <- OkArgs
INVARIANT TypeOK
INVARIANT ExitCodeTable
INVARIANT ZeroIffAllAccepted
INVARIANT Emit
CHECK_DEADLOCK FALSE
