------------------------- MODULE MC_UniqueInductive -------------------------
\* Apalache wrapper: constants as definitions
EXTENDS UniqueInductive
ConstInit == Keys = 1..6
=============================================================================
