------------------------------- MODULE Hostile -------------------------------
(***************************************************************************)
(* Problems surface as cutplace errors (property C10).                     *)
(*                                                                         *)
(* The specification contributes (a) the enumeration of where a hostile    *)
(* value can be put -- every cell of every row kind of a CID, every cell   *)
(* of a data row, one at a time and in pairs -- and (b) the alphabet of    *)
(* legal outcomes of each step; the strings behind a hostile class and the *)
(* byte-level corruption of containers belong to the harness.              *)
(*                                                                         *)
(*   LoadCid    Cid.read                  -> ok | InterfaceError           *)
(*   ReadData   cutplace.rows / validate  -> ok | DataError                *)
(*   Cli        applications.main         -> exit code 0 | 1 | 2 | 3       *)
(* There is no action with another outcome: an execution showing anything  *)
(* else (TokenError, re.error, AssertionError, exit code 4 ...) is not a   *)
(* behaviour of the specification.                                         *)
(***************************************************************************)
EXTENDS Integers, Sequences, FiniteSets, TLC, Json

CONSTANTS Formats, Classes,     \* data formats; hostile classes (abstract)
          Pairs                 \* BOOLEAN: two hostile cells instead of one

\* cells of a CID by row kind: marker, and the parsed columns
CidCells == {<<"D", c>> : c \in {"marker", "name", "value"}}
       \cup {<<"F", c>> : c \in {"marker", "name", "example", "empty", "length", "type", "rule"}}
       \cup {<<"C", c>> : c \in {"marker", "description", "type", "rule"}}
\* a hostile value in a rule / example cell is tried for every field type, in a data cell for every column type
FieldTypes == {"Integer", "Decimal", "Choice", "Constant", "DateTime", "Pattern", "RegEx", "Text"}
CheckTypes == {"IsUnique", "DistinctCount"}
\* the value cell of a data-format row is tried under every property name (whether it applies to the format is the loader's
\* business: refusing is a legal outcome)
DProps == {"item delimiter", "quote character", "escape character", "encoding", "allowed characters", "line delimiter", "header",
           "decimal separator", "thousands separator", "quoting", "skip initial space", "sheet"}
Targets == {[where |-> "cid", cell |-> c, type |-> t] : c \in CidCells, t \in FieldTypes \cup CheckTypes}
      \cup {[where |-> "cid", cell |-> <<"D", "value">>, type |-> p] : p \in DProps}
      \cup {[where |-> "data", cell |-> <<"row", "cell">>, type |-> t] : t \in FieldTypes}
Sensible(t) == IF t.where = "cid"
               THEN (t.cell[1] = "F" /\ t.type \in FieldTypes /\ (t.cell[2] \in {"rule", "example", "length"} \/ t.type = "Text"))
                    \/ (t.cell[1] = "C" /\ t.type \in CheckTypes /\ (t.cell[2] = "rule" \/ t.type = "IsUnique"))
                    \/ (t.cell[1] = "D" /\ (t.type = "Text" \/ (t.cell[2] = "value" /\ t.type \in DProps)))
               ELSE TRUE

VARIABLES fmt, targets, classes,   \* the case: where the hostile values go
          stage, outcome, exit
vars == <<fmt, targets, classes, stage, outcome, exit>>

Init == /\ fmt \in Formats
        /\ \E t1 \in {t \in Targets : Sensible(t)}, c1 \in Classes :
             IF Pairs
             THEN \E t2 \in {t \in Targets : Sensible(t)}, c2 \in Classes :
                    t1 # t2 /\ targets = <<t1, t2>> /\ classes = <<c1, c2>>
             ELSE targets = <<t1>> /\ classes = <<c1>>
        /\ stage = "cid" /\ outcome = "none" /\ exit = -1

\* whether a hostile cell makes the CID / the data unsound is not the model's business: both outcomes are allowed
LoadCid == /\ stage = "cid"
           /\ \E o \in {"ok", "InterfaceError"} : outcome' = o /\ stage' = (IF o = "ok" THEN "data" ELSE "cli")
           /\ UNCHANGED <<fmt, targets, classes, exit>>
ReadData == /\ stage = "data"
            /\ \E o \in {"ok", "DataError"} : outcome' = o
            /\ stage' = "cli" /\ UNCHANGED <<fmt, targets, classes, exit>>
Cli == /\ stage = "cli"
       /\ exit' = (IF outcome = "ok" THEN 0 ELSE 1) /\ stage' = "done"
       /\ UNCHANGED <<fmt, targets, classes, outcome>>
Next == LoadCid \/ ReadData \/ Cli
Spec == Init /\ [][Next]_vars

LegalOutcomes == outcome \in {"none", "ok", "InterfaceError", "DataError"}
NeverExitFour == exit \in {-1, 0, 1, 2, 3}
CidErrorsAreInterfaceErrors == (stage = "cli" /\ outcome = "DataError") => \E i \in 1..Len(targets) : TRUE
Emit == stage = "cid" => PrintT(<<"VEC", ToJson([fmt |-> fmt, targets |-> targets, classes |-> classes])>>)
=============================================================================
