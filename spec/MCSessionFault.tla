--------------------------- MODULE MCSessionFault ---------------------------
(* every table of up to MaxRows rows, plain and with a container fault at every row boundary (C04, C06) *)
EXTENDS MCSessionBase
CONSTANT MaxRows
RowKinds == {R(1,1), R(1,2), R(2,1), R(2,2), Bad1, Bad2, BadBoth, Short, Long}
TheTables == UNION {{F(r, k) : k \in 0..(Len(r) + 1)} : r \in SeqsUpTo(RowKinds, MaxRows)}
=============================================================================
