----------------------------- MODULE MCExcelSweep -----------------------------
(* (a module of its own: TLC evaluates every constant definition of the root module at start-up) *)
EXTENDS MCExcel
\* thorough tier: a sweep through the calendar (every 97th day from 1900-03-01 to 9999-12-31) and through the day
\* (every 7th second), and date-times combining both
SweepCells == { [k |-> "date", serial |-> 61 + 97 * i] : i \in 0..30499 }
         \cup { [k |-> "time", sec |-> 7 * i] : i \in 0..12342 }
         \cup { [k |-> "datetime", serial |-> 61 + 9973 * i, sec |-> (4799 * i) % 86400] : i \in 0..296 }
=============================================================================
