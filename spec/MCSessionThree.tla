---------------------------- MODULE MCSessionThree ----------------------------
(* Rows of three fields whose second one may be empty: an empty, allowed cell to the left of a cell its field rejects    *)
(* (C04: the error names the first offending column -- counted over all cells, empty ones included).                     *)
EXTENDS MCSessionBase
Cells3 == {<<a, b, c>> : a \in {"ok", "rej"}, b \in {"ok", "emp", "rej"}, c \in {"ok", "rej"}}
Rows3 == {[w |-> "ok", c |-> cs, v |-> <<x, 1, 1>>] : cs \in Cells3, x \in {1, 2}}
TheTables == {T(s) : s \in SeqsUpTo(Rows3, 2)}
=============================================================================
