SPECIFICATION Spec
CONSTANTS
  WidthLists <- AllWidths
  Delims <- AllDelims
  MaxLen = 7
  MaxRecords = 0
  Mutants = FALSE
INVARIANT TypeOK
INVARIANT LosslessAndAligned
INVARIANT ConsumedSoFar
INVARIANT BuiltIsAccepted
CHECK_DEADLOCK FALSE
