----------------------------- MODULE UniqueProof -----------------------------
(***************************************************************************)
(* TLAPS proof for UniqueInductive.tla: the bookkeeping invariant of an    *)
(* IsUnique check holds in every reachable state, for ANY set of keys      *)
(* (Apalache discharges the same obligations for Keys = 1..6, TLC checks   *)
(* the full Session.tla for tables of up to 5 rows).  Checked by           *)
(*     tlapm spec/UniqueProof.tla                                          *)
(* (harness/c05.py runs it and demands that every obligation is proved).   *)
(***************************************************************************)
EXTENDS UniqueInductive, TLAPS

vars == <<registered, acceptedKeys, open, lastRejectedAsDuplicate, lastHadTwin>>
Spec == Init /\ [][Next]_vars

THEOREM InitEstablishes == Init => IndInv
  BY DEF Init, IndInv

THEOREM NextPreserves == IndInv /\ [Next]_vars => IndInv'
  <1> SUFFICES ASSUME IndInv, [Next]_vars PROVE IndInv'
    OBVIOUS
  <1>1. CASE Open
    BY <1>1 DEF IndInv, Open
  <1>2. CASE Skipped
    BY <1>2 DEF IndInv, Skipped
  <1>3. CASE \E k \in Keys : Row(k)
    BY <1>3 DEF IndInv, Row
  <1>4. CASE UNCHANGED vars
    BY <1>4 DEF IndInv, vars
  <1> QED
    BY <1>1, <1>2, <1>3, <1>4 DEF Next

THEOREM InvImpliesSafety == IndInv => Safety
  BY DEF IndInv, Safety

\* C05 for behaviours of any length over any key alphabet
THEOREM Spec => []Safety
  <1>1. Spec => []IndInv
    BY InitEstablishes, NextPreserves, PTL DEF Spec
  <1> QED
    BY <1>1, InvImpliesSafety, PTL
=============================================================================
