SPECIFICATION Spec
CONSTANTS
  Formats <- AllFormats
  LengthDecls <- Decls
  FixedWidths <- Widths
  MaxCell = 2
  StripBeforeEmptyGuard = TRUE
  BlankCellSkipsCharGuard = FALSE
  StripsBlanksOnly = TRUE
INVARIANT TypeOK
INVARIANT GuardsHold
CHECK_DEADLOCK FALSE
