SPECIFICATION Spec
CONSTANTS
  Chars <- SmallChars
  MaxRows = 2
  MaxCells = 1
  MaxLen = 1
  FeatureSets <- SomeFeatures
  Sheets <- OneSheet
  CollectAllText = TRUE
  ExpandRowRepeats = TRUE
  DescendsIntoRowContainers = FALSE
  ReadsCoveredCells = TRUE
INVARIANT TypeOK
INVARIANT ReadsTheLogicalTable
INVARIANT MissingSheetIsRefused
INVARIANT Emit
CHECK_DEADLOCK FALSE
