---------------------------- MODULE CidLoadTrace ----------------------------
(***************************************************************************)
(* Trace validation (code -> spec) for CidLoad.tla: event logs of Cid.read *)
(* (hooks cid_row_begin / cid_row_end / cid_done in cutplace/interface.py) *)
(* are checked against the actions ReadRow and Finish.                     *)
(*                                                                         *)
(* A trace holds the rows of ONE Cid.read call in order.  The log says for *)
(* every row what kind it is (marker), which name / description / format   *)
(* it carries (interned), at which line the loader was, and whether the    *)
(* row was processed to its end; the last row of a rejected CID has no     *)
(* end.  Why a row was refused is not logged: the trace specification lets *)
(* TLC choose between "some cell of it is broken" (tag "defect") and       *)
(* "nothing wrong with its cells" (tag "none": then the structure must     *)
(* explain the refusal).  What the logged executions are checked for: rows *)
(* numbered consecutively from 0; a row processed to its end is one        *)
(* ReadRow must accept in the state reached so far -- Format first and     *)
(* once, properties after it, unique field names, checks after a field,    *)
(* unique descriptions, no unknown marker; the number of fields and checks *)
(* after every row; `done` only for a CID that Finish accepts.             *)
(***************************************************************************)
EXTENDS CidLoad, IOUtils

Traces == JsonDeserialize(IOEnv.TRACE_FILE)
VARIABLES tid, l
tvars == <<label, rows, pos, fmt, contra, fields, checks, status, errRow, narrowNow, firstField, tid, l>>
Ev == Traces[tid].events[l]
NEvents == Len(Traces[tid].events)

\* the abstract rows of the trace; the row without an end may or may not have a broken cell, and any
\* property row may be the one that contradicts another one
RowOf(e, defect) == [k |-> e.k, tag |-> IF e.k = "D" THEN (IF e.isformat THEN "format" ELSE (IF defect THEN "badvalue" ELSE "good"))
                                         ELSE (IF defect THEN "defect" ELSE "none"),
                     id |-> e.id, val |-> e.val]
RowEvents(t) == SelectSeq(t.events, LAMBDA e : e.ev = "row")
Candidates(t) ==
  LET rs == RowEvents(t)
      n == Len(rs)
      plain == [i \in 1..n |-> RowOf(rs[i], FALSE)]
      lastBroken == IF n > 0 /\ ~rs[n].ended THEN {[plain EXCEPT ![n] = RowOf(rs[n], TRUE)]} ELSE {}
      contradictory == {[plain EXCEPT ![i].tag = "contra"] : i \in {j \in 1..n : plain[j].tag = "good"}}
      \* ... or the one under which the examples of the fields are no values any more
      narrowing == {[plain EXCEPT ![i].tag = "narrow"] : i \in {j \in 1..n : plain[j].tag = "good"}}
  IN {plain} \cup lastBroken \cup contradictory \cup narrowing

TInit == /\ tid \in 1..Len(Traces) /\ l = 1
         /\ rows \in Candidates(Traces[tid]) /\ label = "trace"
         /\ pos = 0 /\ fmt = "" /\ contra = FALSE /\ fields = <<>> /\ checks = <<>> /\ status = "loading" /\ errRow = 0
         /\ narrowNow = FALSE /\ firstField = 0

TrRow == /\ l <= NEvents /\ Ev.ev = "row"
         /\ Ev.line = pos                                       \* rows are numbered consecutively, empty rows included
         /\ ReadRow
         /\ Ev.ended = (status' = "loading")                    \* processed to its end iff the specification accepts the row here
         /\ Ev.ended => (Ev.nfields = Len(fields') /\ Ev.nchecks = Len(checks'))
         /\ l' = l + 1 /\ UNCHANGED tid
TrDone == /\ l <= NEvents /\ Ev.ev = "done"
          /\ Finish /\ status' = "accepted"
          /\ Ev.nfields = Len(fields) /\ Ev.nchecks = Len(checks)
          /\ l' = l + 1 /\ UNCHANGED tid
\* a CID refused after its last row: no event, Finish must refuse too
TrRefusedAtEnd == /\ l = NEvents + 1 /\ ~Traces[tid].done /\ status = "loading" /\ pos = Len(rows)
                  /\ Finish /\ status' = "rejected"
                  /\ UNCHANGED <<tid, l>>
TNext == TrRow \/ TrDone \/ TrRefusedAtEnd
\* accepted = all events consumed and the end state explained
Explained == l = NEvents + 1 /\ status # "loading"
Progress == PrintT(<<"AT", ToJson(<<tid, IF Explained THEN l + 1 ELSE l>>)>>)
=============================================================================
