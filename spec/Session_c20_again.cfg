\* generated by tools/gen_cfgs.py; root module: MCSessionCalls
SPECIFICATION Spec
CONSTANTS
  MaxRows = 1
  NFields = 2
  Checks <- PChecks2
  Header = 0
  Tables <- TheTables
  Modes <- AllModes
  Limits <- NoLimit
  Apis = {"reader"}
  Ends = {"close", "forget"}
  Writers = FALSE
  MaxOps = 2
  Rereads = TRUE
  Parking = FALSE
  ResetOnOpen = TRUE
  ResetOnStart = TRUE
  RegisterOnReach = FALSE
  RegisterBeforeWrite = FALSE
  EndChecksOnError = FALSE
  LogCalls = TRUE
INVARIANT TypeOK
INVARIANT HistoryIndependence
INVARIANT CallsAsDocumented
INVARIANT ProtocolHolds
INVARIANT HeaderNeverValidated
INVARIANT Emit
PROPERTY ChecksOnlyChangeInsideASession
CHECK_DEADLOCK FALSE
