SPECIFICATION Spec
CONSTANTS
  Conventions <- Convs
  Integrals <- Ints
  Fractions <- Fracs
  Rules <- DRules
  RefusesForeignPoint = FALSE
INVARIANT TypeOK
INVARIANT DecimalMeansWhatItSays
CHECK_DEADLOCK FALSE
