------------------------------ MODULE FieldText ------------------------------
(***************************************************************************)
(* Choice, Constant, Pattern and RegEx fields (part of property C02),      *)
(* cutplace/fields.py:272-372 and 597-634.                                 *)
(*                                                                         *)
(* Mechanism side: Choice / Constant -- membership in the list the rule    *)
(* spells (case-sensitive); Pattern -- the glob is translated into a       *)
(* regular expression (fnmatch.translate: "*" -> ".*", "?" -> ".", end     *)
(* anchored) and matched ignoring case; RegEx -- re.match, i.e. anchored   *)
(* at the first character only, ignoring case.  The regular-expression     *)
(* matcher is a backtracking one over atoms.                               *)
(* Denotation side: what a glob / a regular expression MEANS, computed a   *)
(* different way (direct glob recursion; set-of-positions simulation).     *)
(***************************************************************************)
EXTENDS Integers, Sequences, FiniteSets, TLC, Json

CONSTANTS Kinds,        \* subset of {"choice", "constant", "pattern", "regex"}
          Words,        \* words for choice lists and cells
          GlobChars,    \* e.g. {"a", "b", "?", "*", "[ab]", "[!a]"} (a character class is one position of the glob)
          Atoms,        \* regex atoms [ch, star]
          TextChars,    \* characters of cells for pattern / regex
          MaxRule, MaxText

Lower(c) == IF c = "A" THEN "a" ELSE IF c = "B" THEN "b" ELSE c
SameIgnoringCase(x, y) == Lower(x) = Lower(y)
SeqsUpTo(S, n) == UNION {[1..k -> S] : k \in 0..n}

VARIABLES kind, rule, cell, verdict
vars == <<kind, rule, cell, verdict>>

(* ------------------------------ regular expressions over atoms ------------------------------ *)
\* one position of a glob or an atom against one character: a character class "[seq]" / "[!seq]" (fnmatch) or the character
CharMatches(tok, c) == CASE tok = "[ab]" -> Lower(c) \in {"a", "b"}
                         [] tok = "[!a]" -> Lower(c) # "a"
                         [] tok = "[b]" -> Lower(c) = "b"
                         [] OTHER -> SameIgnoringCase(tok, c)
AtomMatches(a, c) == a.ch = "." \/ CharMatches(a.ch, c)
\* backtracking matcher (mechanism): can r match starting at position i of s, consuming up to the end if `full`?
RECURSIVE Bt(_, _, _, _)
Bt(r, s, i, full) ==
  IF r = <<>> THEN (~full \/ i > Len(s))
  ELSE LET a == Head(r) IN
       IF a.ch = "$" THEN i > Len(s) /\ Bt(Tail(r), s, i, full)
       ELSE IF a.star
            THEN \/ Bt(Tail(r), s, i, full)                                        \* zero occurrences
                 \/ (i <= Len(s) /\ AtomMatches(a, s[i]) /\ Bt(r, s, i + 1, full)) \* one more
            ELSE i <= Len(s) /\ AtomMatches(a, s[i]) /\ Bt(Tail(r), s, i + 1, full)
\* set-of-positions simulation (denotation): positions reachable after the atoms so far
RECURSIVE Closure(_, _, _)
Closure(a, s, P) == LET Q == P \cup {i + 1 : i \in {j \in P : j <= Len(s) /\ AtomMatches(a, s[j])}} IN IF Q = P THEN P ELSE Closure(a, s, Q)
RECURSIVE Reach(_, _, _)
Reach(r, s, P) ==
  IF r = <<>> THEN P
  ELSE LET a == Head(r) IN
       IF a.ch = "$" THEN Reach(Tail(r), s, {i \in P : i = Len(s) + 1})
       ELSE IF a.star THEN Reach(Tail(r), s, Closure(a, s, P))
       ELSE Reach(Tail(r), s, {i + 1 : i \in {j \in P : j <= Len(s) /\ AtomMatches(a, s[j])}})
MatchesPrefix(r, s) == Reach(r, s, {1}) # {}
MatchesWhole(r, s) == (Len(s) + 1) \in Reach(r, s, {1})

(* ------------------------------ globs ------------------------------ *)
\* fnmatch.translate (mechanism)
GlobToRegex(g) == [i \in 1..Len(g) |-> IF g[i] = "*" THEN [ch |-> ".", star |-> TRUE]
                                        ELSE IF g[i] = "?" THEN [ch |-> ".", star |-> FALSE]
                                        ELSE [ch |-> g[i], star |-> FALSE]]
\* what a glob means (denotation)
RECURSIVE GlobMatch(_, _)
GlobMatch(g, s) ==
  IF g = <<>> THEN s = <<>>
  ELSE IF Head(g) = "*" THEN GlobMatch(Tail(g), s) \/ (s # <<>> /\ GlobMatch(g, Tail(s)))
  ELSE s # <<>> /\ (Head(g) = "?" \/ CharMatches(Head(g), Head(s))) /\ GlobMatch(Tail(g), Tail(s))

(* ------------------------------ the cases ------------------------------ *)
Cases == (IF "choice" \in Kinds THEN {<<"choice", r, c>> : r \in SeqsUpTo(Words, 3) \ {<<>>}, c \in Words} ELSE {})
    \cup (IF "constant" \in Kinds THEN {<<"constant", <<w>>, c>> : w \in Words, c \in Words} ELSE {})
    \cup (IF "pattern" \in Kinds THEN {<<"pattern", g, s>> : g \in SeqsUpTo(GlobChars, MaxRule) \ {<<>>}, s \in SeqsUpTo(TextChars, MaxText) \ {<<>>}} ELSE {})
    \cup (IF "regex" \in Kinds THEN {<<"regex", r, s>> : r \in SeqsUpTo(Atoms, MaxRule) \ {<<>>}, s \in SeqsUpTo(TextChars, MaxText) \ {<<>>}} ELSE {})
Init == \E k \in Cases : kind = k[1] /\ rule = k[2] /\ cell = k[3] /\ verdict = <<>>
NoDuplicates(r) == \A i, j \in 1..Len(r) : i # j => r[i] # r[j]
\* validated_value of the four classes
Decide ==
  /\ verdict = <<>>
  /\ verdict' = <<CASE kind = "choice" -> \E i \in 1..Len(rule) : rule[i] = cell                     \* fields.py:317-325
                    [] kind = "constant" -> cell = rule[1]                                          \* fields.py:365-372
                    [] kind = "pattern" -> Bt(GlobToRegex(rule), cell, 1, TRUE)                     \* fields.py:621-634
                    [] kind = "regex" -> Bt(rule, cell, 1, FALSE)>>                                 \* fields.py:602-613
  /\ UNCHANGED <<kind, rule, cell>>
Next == Decide
Spec == Init /\ [][Next]_vars

Meant == CASE kind = "choice" -> cell \in {rule[i] : i \in 1..Len(rule)}     \* exactly one of the listed values, case-sensitively
           [] kind = "constant" -> cell = rule[1]
           [] kind = "pattern" -> GlobMatch(rule, cell)                      \* the glob matches the value entirely
           [] kind = "regex" -> MatchesPrefix(rule, cell)                    \* the expression matches from the first character
TextMeansWhatItSays == verdict # <<>> => verdict[1] = Meant
TypeOK == Len(verdict) <= 1
Emit == verdict # <<>> => PrintT(<<"VEC", ToJson([kind |-> kind, rule |-> rule, cell |-> cell, accept |-> Meant])>>)
=============================================================================
