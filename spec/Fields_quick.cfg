SPECIFICATION Spec
CONSTANTS
  Formats <- AllFormats
  LengthDecls <- Decls
  FixedWidths <- Widths
  MaxCell = 4
  StripBeforeEmptyGuard = TRUE
  BlankCellSkipsCharGuard = TRUE
  StripsBlanksOnly = TRUE
INVARIANT TypeOK
INVARIANT GuardsHold
INVARIANT Emit
CHECK_DEADLOCK FALSE
