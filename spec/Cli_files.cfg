SPECIFICATION Spec
CONSTANTS
  CidStates <- AllCids
  FileKinds <- AllKinds
  MaxFiles = 3
  Untils <- AllUntils
  Headers <- NoHeader
  Decorations <- Plain
  ArgStates <- OkArgs
INVARIANT TypeOK
INVARIANT ExitCodeTable
INVARIANT ZeroIffAllAccepted
INVARIANT Emit
CHECK_DEADLOCK FALSE
