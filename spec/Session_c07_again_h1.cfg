\* generated by tools/gen_cfgs.py; root module: MCSessionLim
SPECIFICATION Spec
CONSTANTS
  MaxRows = 2
  NFields = 2
  Checks <- U1
  Header = 1
  Tables <- TheTables
  Modes <- TwoModes
  Limits <- HLimits
  Apis = {"reader"}
  Ends = {"close", "forget", "abandon"}
  Writers = FALSE
  MaxOps = 2
  Rereads = TRUE
  Parking = FALSE
  ResetOnOpen = TRUE
  ResetOnStart = TRUE
  RegisterOnReach = FALSE
  RegisterBeforeWrite = FALSE
  EndChecksOnError = FALSE
  LogCalls = FALSE
INVARIANT TypeOK
INVARIANT HistoryIndependence
INVARIANT RowAcceptedIff
INVARIANT ErrorLocation
INVARIANT UniqueIffEarlierAccepted
INVARIANT DistinctAtEnd
INVARIANT ModesAgree
INVARIANT CountersAddUp
INVARIANT FaultStopsEveryMode
INVARIANT HeaderNeverValidated
INVARIANT LimitBoundary
INVARIANT ValidateStopsAfterN
INVARIANT WriterEmitsAccepted
INVARIANT OutputRevalidates
INVARIANT Emit
PROPERTY ChecksOnlyChangeInsideASession
CHECK_DEADLOCK FALSE
