\* expected counterexample (D65): examples judged only when the field is declared
SPECIFICATION Spec
CONSTANTS
  Formats <- AllFormats
  MaxFields = 3
  MaxChecks = 2
  FTags <- FieldTags
  CTags <- CheckTags
  ExamplesJudgedWhenComplete = FALSE
  Decorations <- AllDeco
INVARIANT TypeOK
INVARIANT AcceptedIffSound
CHECK_DEADLOCK FALSE
