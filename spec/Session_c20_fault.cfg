\* generated by tools/gen_cfgs.py; root module: MCSessionCallsFault
SPECIFICATION Spec
CONSTANTS
  MaxRows = 2
  NFields = 2
  Checks <- PChecks2
  Header = 0
  Tables <- TheTables
  Modes <- AllModes
  Limits <- NoLimit
  Apis = {"rows", "reader"}
  Ends = {"close"}
  Writers = FALSE
  MaxOps = 1
  Rereads = FALSE
  Parking = FALSE
  ResetOnOpen = TRUE
  ResetOnStart = TRUE
  RegisterOnReach = FALSE
  RegisterBeforeWrite = FALSE
  EndChecksOnError = FALSE
  LogCalls = TRUE
INVARIANT TypeOK
INVARIANT HistoryIndependence
INVARIANT CallsAsDocumented
INVARIANT ProtocolHolds
INVARIANT HeaderNeverValidated
INVARIANT Emit
PROPERTY ChecksOnlyChangeInsideASession
CHECK_DEADLOCK FALSE
