--------------------------- MODULE MCSessionEmpty ---------------------------
(* lines without any content among the rows (C07, C04): a row without items is a row like any other -- it has a number, *)
(* is skipped inside the header, is rejected as data and returned unchanged beyond the validation limit                  *)
EXTENDS MCSessionBase
CONSTANT MaxRows
EmptyRows == {R(1,1), Bad1, Empty}
TheTables == {T(r) : r \in SeqsUpTo(EmptyRows, MaxRows)}
=============================================================================
