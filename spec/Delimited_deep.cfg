SPECIFICATION Spec
CONSTANTS
  DelimChoices <- Delims
  QuoteChoices <- Quotes
  EscChoices <- Escs
  CellChars <- Cells
  MaxChars = 4
  MaxCells = 4
  MaxRaw = 0
  MaxRows = 2
  LoaderRefusesClash = TRUE
INVARIANT TypeOK
INVARIANT RoundTrip
INVARIANT Emit
CHECK_DEADLOCK FALSE
