SPECIFICATION Spec
CONSTANTS
  Formats <- AllFormats
  LengthDecls <- Decls
  FixedWidths <- Widths
  MaxCell = 2
  StripBeforeEmptyGuard = TRUE
  BlankCellSkipsCharGuard = TRUE
  StripsBlanksOnly = FALSE
INVARIANT TypeOK
INVARIANT GuardsHold
CHECK_DEADLOCK FALSE
