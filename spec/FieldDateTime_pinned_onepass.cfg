SPECIFICATION Spec
CONSTANTS
  Layouts <- AllLayouts
  Days <- D
  Months <- M
  Years4 <- Y4
  Years2 <- Y2
  Hours <- H
  Minutes <- Mi
  Seconds <- Se
  Excel = FALSE
  OnePassTranslation = FALSE
INVARIANT TypeOK
INVARIANT DateMeansWhatItSays
CHECK_DEADLOCK FALSE
