SPECIFICATION Spec
CONSTANTS
  CellPool <- SweepCells
  MaxRows = 1
  MaxCols = 1
  SheetChoices <- OneSheet
  ReadsRequestedSheet = TRUE
INVARIANT TypeOK
INVARIANT ReadsTheRequestedSheet
INVARIANT DatesConsistent
INVARIANT Emit
CHECK_DEADLOCK FALSE
