---------------------------- MODULE FieldInteger ----------------------------
(***************************************************************************)
(* Integer fields (part of property C02): which range an Integer field     *)
(* validates against -- cutplace/fields.py:439-492 (rule, else length,     *)
(* else signed 32 bit) and cutplace/ranges.py:123-163                      *)
(* (create_range_from_length) -- against what the property says: with only *)
(* a length, any integer whose text fits that length.                      *)
(*                                                                         *)
(* Machine: one declaration (length items, rule items, fixed width or not) *)
(* is chosen, then                                                         *)
(*   DeriveFromLength   one step per length item of create_range_from_length*)
(*   Decide             the precedence and consistency logic of __init__   *)
(*   Probe              one value through validated_value                  *)
(***************************************************************************)
EXTENDS Integers, Sequences, FiniteSets, TLC, Json

CONSTANTS LengthDecls,   \* set of length declarations: sequences of <<lo, hi>>, a limit is <<>> or <<n>>
          Rules,         \* set of rules: <<>> (none) or a sequence of <<lo, hi>> items over integers
          Probes         \* integer values probed

None == <<>>
Some(n) == <<n>>
RECURSIVE Pow10(_)
Pow10(k) == IF k = 0 THEN 1 ELSE 10 * Pow10(k - 1)
Nines(k) == Pow10(k) - 1                       \* "9" * k
\* number of characters of the decimal text of v
RECURSIVE Digits(_)
Digits(n) == IF n < 10 THEN 1 ELSE 1 + Digits(n \div 10)
TextLen(v) == IF v < 0 THEN 1 + Digits(-v) ELSE Digits(v)
InItem(v, it) == (it[1] = None \/ it[1][1] <= v) /\ (it[2] = None \/ v <= it[2][1])
InItems(v, items) == \E i \in 1..Len(items) : InItem(v, items[i])

VARIABLES decl, rule, fixed,   \* the declaration
          todo,                \* length items still to be turned into range items
          fromLength,          \* range items derived from the length so far
          valid,               \* <<>> until decided; then <<"range", items>> | <<"any">> | <<"refused">>
          probe, verdict       \* verdict: <<>> | <<"accept">> | <<"reject">>
vars == <<decl, rule, fixed, todo, fromLength, valid, probe, verdict>>

\* for fixed-width data the implicit length is 1...width (fields.py:446-451)
EffectiveLength(d, fx) == IF fx /\ d # <<>> THEN << <<Some(1), d[1][2]>> >> ELSE d
Init == /\ decl \in LengthDecls /\ rule \in Rules /\ fixed \in BOOLEAN
        /\ fixed => (decl # <<>> /\ Len(decl) = 1 /\ decl[1][1] = decl[1][2] /\ decl[1][1] # None)
        /\ todo = EffectiveLength(decl, fixed) /\ fromLength = <<>> /\ valid = <<>> /\ probe = 0 /\ verdict = <<>>

\* ranges.py:136-158, one length item
DeriveFromLength ==
  /\ valid = <<>> /\ todo # <<>>
  /\ LET lo == Head(todo)[1]
         hi == Head(todo)[2]
         items ==
           IF lo = None \/ lo[1] = 0 \/ lo[1] = 1
           THEN IF hi = None THEN <<>>                                               \* adds nothing (", ")
                ELSE IF hi[1] = 1 THEN << <<Some(0), Some(9)>> >>
                ELSE << <<Some(-Nines(hi[1] - 1)), Some(Nines(hi[1]))>> >>
           ELSE IF hi = None
                THEN << <<None, Some(-Pow10(lo[1] - 2))>>, <<Some(Pow10(lo[1] - 1)), None>> >>
                ELSE << <<Some(-Nines(hi[1] - 1)), Some(-Pow10(lo[1] - 2))>>, <<Some(Pow10(lo[1] - 1)), Some(Nines(hi[1]))>> >>
     IN fromLength' = fromLength \o items
  /\ todo' = Tail(todo)
  /\ UNCHANGED <<decl, rule, fixed, valid, probe, verdict>>

\* every limit of the rule must itself fit the declared length (fields.py:463-475)
RuleFitsLength == \A i \in 1..Len(rule) : \A k \in 1..2 :
                    rule[i][k] # None => InItems(TextLen(rule[i][k][1]), EffectiveLength(decl, fixed))
\* fields.py:458-492
Decide ==
  /\ valid = <<>> /\ todo = <<>>
  /\ valid' = IF decl # <<>>
              THEN IF rule # <<>> THEN (IF RuleFitsLength THEN <<"range", rule>> ELSE <<"refused">>)
                   ELSE (IF fromLength = <<>> THEN <<"any">> ELSE <<"range", fromLength>>)
              ELSE IF rule # <<>> THEN <<"range", rule>>
              ELSE <<"range", << <<Some(-2147483647 - 1), Some(2147483647)>> >> >>
  /\ UNCHANGED <<decl, rule, fixed, todo, fromLength, probe, verdict>>

Probe ==
  /\ valid # <<>> /\ valid[1] # "refused" /\ verdict = <<>>
  /\ \E v \in Probes :
       /\ probe' = v
       \* the length guard of the shared pipeline (Fields.tla, GuardLength) sees the cell text first
       /\ verdict' = IF /\ (EffectiveLength(decl, fixed) = <<>> \/ InItems(TextLen(v), EffectiveLength(decl, fixed)))
                         /\ (valid[1] = "any" \/ InItems(v, valid[2]))
                      THEN <<"accept">> ELSE <<"reject">>
  /\ UNCHANGED <<decl, rule, fixed, todo, fromLength, valid>>
Next == DeriveFromLength \/ Decide \/ Probe
Spec == Init /\ [][Next]_vars

(* ------------------------------ C02 (Integer), from the property text ------------------------------ *)
FitsLength(v, d) == d = <<>> \/ InItems(TextLen(v), d)
Meant(v) == /\ FitsLength(v, EffectiveLength(decl, fixed))                 \* C03: the cell's length is inside the declared one
            /\ IF rule # <<>> THEN InItems(v, rule)                         \* inside the rule's range
               ELSE IF decl # <<>> THEN TRUE                                \* only a length: any integer whose text fits it
               ELSE (-2147483647 - 1) <= v /\ v <= 2147483647              \* neither: signed 32 bit
IntegerMeansWhatItSays == verdict # <<>> => ((verdict = <<"accept">>) <=> Meant(probe))
TypeOK == Len(verdict) <= 1
Emit == (verdict # <<>> \/ (valid # <<>> /\ valid[1] = "refused")) =>
   PrintT(<<"VEC", ToJson([decl |-> decl, rule |-> rule, fixed |-> fixed, valid |-> valid, probe |-> probe,
                            verdict |-> verdict, meant |-> IF verdict = <<>> THEN FALSE ELSE Meant(probe)])>>)
=============================================================================
