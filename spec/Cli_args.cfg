SPECIFICATION Spec
CONSTANTS
  CidStates <- OneCid
  FileKinds <- NoFiles
  MaxFiles = 1
  Untils <- AllUntils
  Headers <- NoHeader
  Decorations <- Plain
  ArgStates <- BadArgs
INVARIANT TypeOK
INVARIANT ExitCodeTable
INVARIANT Emit
CHECK_DEADLOCK FALSE
