SPECIFICATION Spec
CONSTANTS
  CidStates <- OneCid
  FileKinds <- NoFiles
  MaxFiles = 1
  Untils <- AllUntils
  ArgStates <- BadArgs
INVARIANT TypeOK
INVARIANT ExitCodeTable
INVARIANT Emit
CHECK_DEADLOCK FALSE
