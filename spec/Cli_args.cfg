SPECIFICATION Spec
CONSTANTS
  CidStates <- OneCid
  FileKinds <- NoFiles
  MaxFiles = 1
  Untils <- AllUntils
  Decorations <- Plain
  ArgStates <- BadArgs
INVARIANT TypeOK
INVARIANT ExitCodeTable
INVARIANT Emit
CHECK_DEADLOCK FALSE
