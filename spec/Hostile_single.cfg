SPECIFICATION Spec
CONSTANTS
  Formats <- AllFormats
  Classes <- AllClasses
  Pairs = FALSE
INVARIANT LegalOutcomes
INVARIANT NeverExitFour
INVARIANT Emit
CHECK_DEADLOCK FALSE
