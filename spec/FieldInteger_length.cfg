SPECIFICATION Spec
CONSTANTS
  LengthDecls <- Lengths
  Rules <- NoRule
  Probes <- Values
INVARIANT TypeOK
INVARIANT IntegerMeansWhatItSays
INVARIANT Emit
CHECK_DEADLOCK FALSE
