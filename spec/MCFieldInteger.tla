--------------------------- MODULE MCFieldInteger ---------------------------
EXTENDS FieldInteger
S(n) == <<n>>
\* every 1-item length declaration with limits 0..5 (exact, ranged, lower-only, upper-only) and some 2-item ones
OneItem == { << <<S(a), S(b)>> >> : a \in 0..5, b \in 1..5 } \cup { << <<S(a), <<>>>> >> : a \in 0..5 }
           \cup { << <<<<>>, S(b)>> >> : b \in 1..5 }
Lengths == {<<>>} \cup {d \in OneItem : d[1][1] = <<>> \/ d[1][2] = <<>> \/ d[1][1][1] <= d[1][2][1]}
           \cup { << <<S(1), S(1)>>, <<S(3), S(4)>> >>, << <<S(2), S(3)>>, <<S(5), <<>>>> >> }
NoRule == {<<>>}
SomeRules == {<<>>, << <<S(0), S(99)>> >>, << <<S(-5), S(5)>>, <<S(10), <<>>>> >>, << <<<<>>, S(-100)>>, <<S(7), S(7)>> >>,
              << <<S(100), S(999)>> >>}
\* every power-of-ten boundary up to 6 characters and its neighbours, both signs; the 32-bit boundaries
Bound == UNION {{Pow10(k) - 1, Pow10(k), Pow10(k) + 1} : k \in 0..6}
Values == Bound \cup {-v : v \in Bound} \cup {0, 5, -5, 7, 42, -2147483647, -2147483646, 2147483647, 2147483646}
FewValues == {-100, -5, 0, 7, 10, 99, 100, 999, 1000}
=============================================================================
