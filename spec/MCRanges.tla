----------------------------- MODULE MCRanges -----------------------------
(* Model constants for Ranges.tla (cfg files cannot hold negative numbers). *)
EXTENDS Ranges
\* quick / exhaustive: all 1-2 item descriptions with limits in {-2..2, none} against -4..4
QLim == -2..2
QProbe == -4..4
QSpell == {"num"}
\* thorough exhaustive: up to three items
\* generated: limits around spelling and sign boundaries, every spelling; probes = limits and neighbours
\* (34, 39, 92: the quote characters and the backslash, which need the other quote / an escape when written as text)
GLim == {-70000, -256, -17, -1, 0, 1, 9, 10, 13, 34, 39, 48, 65, 92, 97, 255, 256, 70000}
GProbe == UNION {{n - 1, n, n + 1} : n \in GLim}
GSpell == {"num", "name", "str"}
\* decimal twin: the integer n stands for n/4; limits are halves in -2.0..2.0, probes quarter steps
DLim == {-8, -6, -4, -2, 0, 2, 4, 6, 8}
DProbe == -10..10
=============================================================================
