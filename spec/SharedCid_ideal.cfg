SPECIFICATION Spec
CONSTANTS
  Keys <- TwoKeys
  MaxRows = 2
  BKinds <- BothKinds
  ChecksPerSession = TRUE
INVARIANT TypeOK
INVARIANT SessionsDoNotDisturbEachOther
CHECK_DEADLOCK FALSE
