------------------------------- MODULE Ranges -------------------------------
(***************************************************************************)
(* Range descriptions of cutplace (property C01).                          *)
(*                                                                         *)
(* Operational half: the token loop of cutplace.ranges.Range.__init__      *)
(* (ranges.py:214-341) and of its twin DecimalRange.__init__               *)
(* (ranges.py:546-676), one action per branch of the loop body.            *)
(* Denotational half: what a description is meant to say (Denotes,         *)
(* MinLimit, MaxLimit), stated without reference to the loop.              *)
(*                                                                         *)
(* Numbers are abstract integers; the harness owns their spelling (decimal,*)
(* 0x-hex, quoted character, symbolic name; for DecimalRange the integer n *)
(* stands for n/4).  The separator spelling ("...", ":", one-character     *)
(* ellipsis, blanks) is invisible to the machine and is enumerated by the  *)
(* harness for every behaviour.                                            *)
(***************************************************************************)
EXTENDS Integers, Sequences, FiniteSets, TLC, Json

CONSTANTS Lim,        \* set of integer limits used in descriptions
          Probe,      \* values probed with validate()
          MaxItems,   \* descriptions have 1..MaxItems items
          Spellings   \* subset of {"num", "name", "str"}: token kinds a limit may be written with

\* option type: TLC cannot compare an integer with a string, so "no limit" is the empty sequence
None == <<>>
Some(n) == <<n>>
IsNone(o) == o = <<>>
Val(o) == o[1]
Le(a, b) == IsNone(a) \/ IsNone(b) \/ Val(a) <= Val(b)     \* "no constraint" comparisons

(* ---------- abstract syntax: what the description is meant to say ---------- *)
\* a limit may be spelled as a symbolic name only for the five named codes and as a quoted
\* character only for code points >= 0; a minus sign goes with numbers only
CanSpell(n, sp) == CASE sp = "num"  -> TRUE
                     [] sp = "name" -> n \in 9..13
                     [] sp = "str"  -> n >= 0
SpOf(n) == {sp \in Spellings : CanSpell(n, sp)}

ItemShapes ==
       { [lo |-> Some(a), hi |-> Some(a), form |-> "single", losp |-> s, hisp |-> s] : a \in Lim, s \in Spellings }
  \cup { [lo |-> Some(p[1]), hi |-> Some(p[2]), form |-> "range", losp |-> p[3], hisp |-> p[4]] :
            p \in {q \in Lim \X Lim \X Spellings \X Spellings : q[1] <= q[2]} }
  \cup { [lo |-> Some(a), hi |-> None, form |-> "from", losp |-> s, hisp |-> "num"] : a \in Lim, s \in Spellings }
  \cup { [lo |-> None, hi |-> Some(b), form |-> "upto", losp |-> "num", hisp |-> s] : b \in Lim, s \in Spellings }
WellSpelled(it) == (IsNone(it.lo) \/ CanSpell(Val(it.lo), it.losp)) /\ (IsNone(it.hi) \/ CanSpell(Val(it.hi), it.hisp))
Items == {it \in ItemShapes : WellSpelled(it)}

InItem(v, it) == (IsNone(it.lo) \/ Val(it.lo) <= v) /\ (IsNone(it.hi) \/ v <= Val(it.hi))
Denotes(ast) == { v \in Probe : \E i \in 1..Len(ast) : InItem(v, ast[i]) }
Intersect(a, b) == Le(a.lo, b.hi) /\ Le(b.lo, a.hi)
NonOverlapping(ast) == \A i, j \in 1..Len(ast) : i < j => ~Intersect(ast[i], ast[j])
MinOpt(S) == IF \E o \in S : IsNone(o) THEN None ELSE CHOOSE m \in S : \A o \in S : Val(m) <= Val(o)
MaxOpt(S) == IF \E o \in S : IsNone(o) THEN None ELSE CHOOSE m \in S : \A o \in S : Val(m) >= Val(o)
MinLimit(ast) == MinOpt({ast[i].lo : i \in 1..Len(ast)})
MaxLimit(ast) == MaxOpt({ast[i].hi : i \in 1..Len(ast)})

(* ---------- tokens, as the Python tokenizer front end delivers them ---------- *)
T(k) == [k |-> k, n |-> 0]
LimToks(o, sp) == IF sp = "num"
                  THEN IF Val(o) < 0 THEN <<T("hyphen"), [k |-> "num", n |-> -Val(o)]>> ELSE <<[k |-> "num", n |-> Val(o)]>>
                  ELSE <<[k |-> sp, n |-> Val(o)]>>
ItemToks(it) == CASE it.form = "single" -> LimToks(it.lo, it.losp)
                  [] it.form = "range"  -> LimToks(it.lo, it.losp) \o <<T("ell")>> \o LimToks(it.hi, it.hisp)
                  [] it.form = "from"   -> LimToks(it.lo, it.losp) \o <<T("ell")>>
                  [] it.form = "upto"   -> <<T("ell")>> \o LimToks(it.hi, it.hisp)
RECURSIVE DescToks(_)
DescToks(ast) == IF Len(ast) = 1 THEN ItemToks(ast[1]) \o <<T("eof")>>
                 ELSE ItemToks(ast[1]) \o <<T("comma")>> \o DescToks(Tail(ast))

VARIABLES ast,            \* history: the description, chosen item by item
          phase,          \* "feed" | "run" | "ok" | "err"
          toks, lower, upper, ellipsisFound, afterHyphen, items, lowerLimit, upperLimit
vars == <<ast, phase, toks, lower, upper, ellipsisFound, afterHyphen, items, lowerLimit, upperLimit>>

Init == /\ ast = <<>> /\ phase = "feed" /\ toks = <<>>
        /\ lower = None /\ upper = None /\ ellipsisFound = FALSE /\ afterHyphen = FALSE
        /\ items = <<>> /\ lowerLimit = None /\ upperLimit = None

\* choose the description first, so that every description is one behaviour
Feed == /\ phase = "feed" /\ Len(ast) < MaxItems
        /\ \E it \in Items : ast' = Append(ast, it)
        /\ UNCHANGED <<phase, toks, lower, upper, ellipsisFound, afterHyphen, items, lowerLimit, upperLimit>>
\* ranges.py:214 -- tokenise
Start == /\ phase = "feed" /\ Len(ast) >= 1
         /\ phase' = "run" /\ toks' = DescToks(ast)
         /\ UNCHANGED <<ast, lower, upper, ellipsisFound, afterHyphen, items, lowerLimit, upperLimit>>

Tok == Head(toks)
Fail == phase' = "err" /\ UNCHANGED <<ast, toks, lower, upper, ellipsisFound, afterHyphen, items, lowerLimit, upperLimit>>

\* ranges.py:225-263 -- NAME, NUMBER or STRING token; only a NUMBER consumes a pending hyphen
TokValue ==
  /\ phase = "run" /\ Tok.k \in {"num", "name", "str"}
  /\ LET v == IF Tok.k = "num" /\ afterHyphen THEN -Tok.n ELSE Tok.n IN
     IF ellipsisFound
     THEN IF IsNone(upper) THEN /\ upper' = Some(v) /\ lower' = lower /\ phase' = phase
                           ELSE /\ phase' = "err" /\ UNCHANGED <<lower, upper>>
     ELSE IF IsNone(lower) THEN /\ lower' = Some(v) /\ upper' = upper /\ phase' = phase
                           ELSE /\ phase' = "err" /\ UNCHANGED <<lower, upper>>
  /\ afterHyphen' = IF Tok.k = "num" THEN FALSE ELSE afterHyphen
  /\ toks' = Tail(toks)
  /\ UNCHANGED <<ast, ellipsisFound, items, lowerLimit, upperLimit>>
\* ranges.py:264-270
TokHyphen ==
  /\ phase = "run" /\ Tok.k = "hyphen"
  /\ IF afterHyphen THEN Fail
     ELSE /\ afterHyphen' = TRUE /\ toks' = Tail(toks)
          /\ UNCHANGED <<ast, phase, lower, upper, ellipsisFound, items, lowerLimit, upperLimit>>
\* ranges.py:271-272
TokEllipsis ==
  /\ phase = "run" /\ Tok.k = "ell"
  /\ IF afterHyphen THEN Fail
     ELSE /\ ellipsisFound' = TRUE /\ toks' = Tail(toks)
          /\ UNCHANGED <<ast, phase, lower, upper, afterHyphen, items, lowerLimit, upperLimit>>

\* ranges.py:437-455
ItemContains(it, o) == ~IsNone(o) /\ (IF IsNone(it[1]) THEN Val(o) <= Val(it[2])
                                      ELSE IF IsNone(it[2]) THEN Val(o) >= Val(it[1])
                                      ELSE Val(o) >= Val(it[1]) /\ Val(o) <= Val(it[2]))
\* ranges.py:425-435 (asymmetric, as in the code: only the new item's limits are looked up in the old one)
ItemsOverlap(some, other) == ItemContains(some, other[1]) \/ ItemContains(some, other[2])

\* ranges.py:282-321 -- "decide upon the result", then the limit folding of 323-340 at the end
EndItem ==
  /\ phase = "run" /\ Tok.k \in {"comma", "eof"}
  /\ IF afterHyphen THEN Fail
     ELSE LET kind == IF IsNone(lower) THEN (IF IsNone(upper) THEN (IF ellipsisFound THEN "err" ELSE "empty") ELSE "item")
                      ELSE IF ellipsisFound THEN (IF ~IsNone(upper) /\ Val(lower) > Val(upper) THEN "err" ELSE "item")
                      ELSE "item"
              result == IF IsNone(lower) THEN <<None, upper>> ELSE IF ellipsisFound THEN <<lower, upper>> ELSE <<lower, lower>>
          IN IF kind = "err" THEN Fail
             ELSE IF kind = "item" /\ \E i \in 1..Len(items) : ItemsOverlap(items[i], result) THEN Fail
             ELSE /\ items' = IF kind = "empty" THEN items ELSE Append(items, result)
                  /\ lower' = None /\ upper' = None /\ ellipsisFound' = FALSE /\ afterHyphen' = FALSE
                  /\ IF Tok.k = "eof"
                     THEN /\ phase' = "ok" /\ toks' = <<>>
                          /\ lowerLimit' = MinOpt({items'[i][1] : i \in 1..Len(items')})
                          /\ upperLimit' = MaxOpt({items'[i][2] : i \in 1..Len(items')})
                     ELSE /\ phase' = "run" /\ toks' = Tail(toks) /\ UNCHANGED <<lowerLimit, upperLimit>>
                  /\ UNCHANGED ast
Next == Feed \/ Start \/ TokValue \/ TokHyphen \/ TokEllipsis \/ EndItem
Spec == Init /\ [][Next]_vars

Accepts(its, v) == \E i \in 1..Len(its) : ItemContains(its[i], Some(v))

(* ---------- the property C01 ---------- *)
\* every well-formed description with non-overlapping items is accepted
WellFormedAccepted == (phase = "err") => ~NonOverlapping(ast)
\* an accepted description accepts exactly the values it describes and reports the folded limits
MeansWhatItSays == (phase = "ok") =>
   /\ \A v \in Probe : Accepts(items, v) <=> v \in Denotes(ast)
   /\ lowerLimit = MinLimit(ast) /\ upperLimit = MaxLimit(ast)
   /\ Len(items) = Len(ast)
   /\ \A i \in 1..Len(ast) : items[i] = <<ast[i].lo, ast[i].hi>>
\* the machine never gets stuck half way (every run ends in ok or err)
TypeOK == /\ phase \in {"feed", "run", "ok", "err"}
          /\ phase = "run" => toks # <<>>

\* behaviour generation: one JSON line per complete behaviour (terminal state)
Emit == (phase \in {"ok", "err"}) =>
   PrintT(<<"VEC", ToJson([ast |-> ast, status |-> phase, items |-> items, lo |-> lowerLimit, hi |-> upperLimit,
                            acc |-> {v \in Probe : Accepts(items, v)},
                            den |-> Denotes(ast), nonoverlapping |-> NonOverlapping(ast),
                            minl |-> MinLimit(ast), maxl |-> MaxLimit(ast)])>>)
=============================================================================
