SPECIFICATION Spec
CONSTANTS
  Formats <- AllFormats
  MaxFields = 3
  MaxChecks = 2
  FTags <- FieldTags
  CTags <- CheckTags
  ExamplesJudgedWhenComplete = TRUE
  Decorations <- AllDeco
INVARIANT TypeOK
INVARIANT AcceptedIffSound
INVARIANT RejectionNamesTheRow
INVARIANT KeepsOrder
INVARIANT Emit
CHECK_DEADLOCK FALSE
