\* generated by tools/gen_cfgs.py; root module: MCSessionHist
SPECIFICATION Spec
CONSTANTS
  MaxRows = 0
  NFields = 2
  Checks <- HChecks
  Header = 0
  Tables <- TheTables
  Modes <- AllModes
  Limits <- NoLimit
  Apis = {}
  Ends = {"close", "forget", "abandon"}
  Writers = TRUE
  MaxOps = 2
  Rereads = FALSE
  Parking = FALSE
  ResetOnOpen = TRUE
  ResetOnStart = TRUE
  RegisterOnReach = FALSE
  RegisterBeforeWrite = FALSE
  EndChecksOnError = FALSE
  LogCalls = FALSE
INVARIANT TypeOK
INVARIANT HistoryIndependence
INVARIANT WriterEmitsAccepted
INVARIANT OutputRevalidates
INVARIANT Emit
PROPERTY ChecksOnlyChangeInsideASession
CHECK_DEADLOCK FALSE
