SPECIFICATION Spec
CONSTANTS
  WidthLists <- AllWidths
  Delims <- AllDelims
  MaxLen = 6
  MaxRecords = 0
  Mutants = FALSE
INVARIANT TypeOK
INVARIANT LosslessAndAligned
INVARIANT ConsumedSoFar
INVARIANT BuiltIsAccepted
INVARIANT Emit
CHECK_DEADLOCK FALSE
