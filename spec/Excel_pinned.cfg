SPECIFICATION Spec
CONSTANTS
  CellPool <- FewCells
  MaxRows = 1
  MaxCols = 1
  SheetChoices <- AllSheets
  ReadsRequestedSheet = FALSE
INVARIANT TypeOK
INVARIANT ReadsTheRequestedSheet
INVARIANT DatesConsistent
INVARIANT Emit
CHECK_DEADLOCK FALSE
