SPECIFICATION Spec
CONSTANTS
  DelimChoices <- Delims
  QuoteChoices <- Quotes
  EscChoices <- Escs
  CellChars <- Cells
  MaxChars = 2
  MaxCells = 2
  MaxRows = 1
  LoaderRefusesClash = FALSE
INVARIANT TypeOK
INVARIANT RoundTrip
INVARIANT Emit
CHECK_DEADLOCK FALSE
