SPECIFICATION Spec
CONSTANTS
  Keys <- TwoKeys
  MaxRows = 2
  BKinds <- BothKinds
  ChecksPerSession = FALSE
INVARIANT TypeOK
INVARIANT SessionsDoNotDisturbEachOther
CHECK_DEADLOCK FALSE
