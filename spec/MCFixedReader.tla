--------------------------- MODULE MCFixedReader ---------------------------
EXTENDS FixedReader
AllDelims == {"none", "lf", "cr", "crlf", "any"}
\* all width lists with 1..3 fields of width 1..3 (39 lists)
AllWidths == UNION {[1..n -> 1..3] : n \in 1..3}
\* quick: a representative third of them
SomeWidths == {<<1>>, <<2>>, <<3>>, <<1, 1>>, <<2, 1>>, <<1, 2>>, <<3, 2>>, <<1, 1, 1>>, <<1, 2, 1>>, <<2, 1, 3>>}
MutWidths == {<<2>>, <<1, 2>>, <<3, 1, 2>>}
=============================================================================
