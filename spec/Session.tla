------------------------------ MODULE Session ------------------------------
(***************************************************************************)
(* Reading and writing data under a CID (cutplace/validio.py, checks.py).  *)
(*                                                                         *)
(* The state that matters lives in two places: the open reader or writer   *)
(* (`sess`), and the bookkeeping of the checks, which belongs to the CID   *)
(* and is therefore shared by every reader and writer ever created from it *)
(* (`chk`, interface.py:57-59).  One action per piece of validio.py:       *)
(*   OpenReader   Reader.__init__                          validio.py:165  *)
(*   ReaderStart  first next() of Reader.rows(): counters, reset   239-242 *)
(*   ReaderRow    one pass through the loop body                   244-261 *)
(*   ReaderFault  the container raises outside the per-row handler 244     *)
(*   ReaderEnd    the consumer stops (exhausted / raised / islice / abandon*)
(*                / forget) and, unless forgotten, close() runs    146-161 *)
(*   Park/Resume  a reader that was created is set aside while other       *)
(*                readers and writers use the CID, and iterated later      *)
(*                (`readers = [Reader(cid, p) for p in paths]`)            *)
(*   ReadAgain    rows() is called once more on a reader, closed or not    *)
(*                (the caller rewinds the source): no new object,          *)
(*                counters, row numbers and checks start afresh    239-242 *)
(*   OpenWriter   Writer.__init__                                  278-295 *)
(*   WriterRow    Writer.write_row                                 320-330 *)
(*   WriterEnd    Writer.close or nothing                          338-344 *)
(*                                                                         *)
(* Deviation switches (CONSTANTS): the position in which the listed        *)
(* properties hold is the shipped one; the other position reproduces a     *)
(* defect of the pinned code as a TLC counterexample.                      *)
(*   ResetOnOpen        TRUE: checks are reset when a reader or writer is  *)
(*                      created (C08); FALSE: only at the first next() of  *)
(*                      Reader.rows() -- pinned code (D2, D13)             *)
(*   RegisterOnReach    FALSE: a key is registered only for accepted rows  *)
(*                      (C05); TRUE: pinned code, a unique check registers *)
(*                      the key although a later check rejects the row(D12)*)
(*   ResetOnStart       TRUE: checks are reset at the first next() of      *)
(*                      Reader.rows(); FALSE: only when the reader is      *)
(*                      created -- then a reader created early and read    *)
(*                      late inherits what happened in between (expected   *)
(*                      counterexample with Parking)                       *)
(*   RegisterBeforeWrite FALSE: a row the container's writer refuses (it    *)
(*                      cannot be encoded) leaves no trace in the checks;  *)
(*                      TRUE: shipped code, the checks have seen the row   *)
(*                      before the container refuses it (D14, known        *)
(*                      finding)                                           *)
(*   EndChecksOnError   FALSE: a failing end-of-data check never replaces  *)
(*                      the error that ended the run (C06); TRUE: pinned   *)
(*                      code (D8)                                          *)
(***************************************************************************)
EXTENDS Integers, Sequences, FiniteSets, TLC, Json

CONSTANTS NFields,            \* number of declared fields
          Checks,             \* sequence of check descriptors
          Header,             \* header rows to skip
          Tables,             \* set of data sets [rows |-> Seq(Row), fault |-> 0..Len+1]
          Modes,              \* subset of {"raise", "yield", "continue"}
          Limits,             \* set of validation limits: <<>> (none) or <<n>>
          Apis,               \* subset of {"rows", "validate", "reader"}
          Ends,               \* how a read may end: subset of {"close", "forget", "abandon"}
          Writers,            \* BOOLEAN: writers take part
          MaxOps,             \* length of histories explored
          Rereads,            \* BOOLEAN: a reader that was not closed may be read again
          Parking,            \* BOOLEAN: a created reader may be set aside and iterated after other runs
          ResetOnOpen, ResetOnStart, RegisterOnReach, RegisterBeforeWrite, EndChecksOnError,
          LogCalls            \* BOOLEAN: keep the call log (C20)

VARIABLES chk,   \* state living in the CID: per check, unique: set of <<key, row number>>; distinct: set of values
          sess,  \* open session or NoSess
          hist,  \* finished runs with their observable results
          calls, \* call log of the open session (C20)
          parked \* a reader that was created but is not iterated yet, or NoSess
vars == <<chk, sess, hist, calls, parked>>

None == <<>>
Some(n) == <<n>>
NoSess == [kind |-> "none"]
NChecks == Len(Checks)
EmptyChk == [c \in 1..NChecks |-> {}]
Min(S) == CHOOSE m \in S : \A o \in S : m <= o
NoErr == [cls |-> "none", line |-> 0, cell |-> 0, by |-> 0, see |-> 0]
Err(cls, line, cell, by, see) == [cls |-> cls, line |-> line, cell |-> cell, by |-> by, see |-> see]

(* ------------------------------ rows ------------------------------------ *)
\* a row: w = item count class, c = per cell class, v = per cell value (as seen by the checks)
\*   cell classes: "ok"  accepted by the field's value hook      "emp" empty and allowed to be (hook not called)
\*                 "rej" refused by the value hook               "grd" refused by a guard before the hook
\*   item count classes (w): "ok", "short", "long", and "enc": the right number of items, every cell as its class says, but
\*   the row holds a character the target's encoding cannot represent (only a writer can meet such a row)
CountOk(row) == row.w \in {"ok", "enc"}
BadCells(row) == {i \in 1..Len(row.c) : row.c[i] \in {"rej", "grd"}}
FirstBad(row) == IF BadCells(row) = {} THEN 0 ELSE Min(BadCells(row))

(* ---------------- one row against the current check state ---------------- *)
KeyOf(c, row) == [i \in 1..Len(Checks[c].key) |-> row.v[Checks[c].key[i]]]
\* a probe check vetoes a row by the value of its first cell (an empty cell has no value)
Vetoes(c, row) == Checks[c].t = "p" /\ Checks[c].veto # 0 /\ row.c[1] = "ok" /\ row.v[1] = Checks[c].veto

\* result of running checks c..NChecks in order on a row: <<newChk, error, number of checks that saw the row>>
RECURSIVE RunChecks(_, _, _, _, _)
RunChecks(c, st, row, line, ror) ==
  IF c > NChecks THEN <<st, NoErr, NChecks>>
  ELSE IF Checks[c].t = "u" THEN
         LET k == KeyOf(c, row)
             hit == {p \in st[c] : p[1] = k}
         IN IF hit # {} THEN <<st, Err("CheckError", line, 1, c, (CHOOSE p \in hit : TRUE)[2]), c>>
            ELSE LET st2 == [st EXCEPT ![c] = @ \cup {<<k, line>>}]
                     rest == RunChecks(c + 1, st2, row, line, ror)
                 IN IF rest[2].cls = "none" \/ ror THEN rest
                    ELSE <<[rest[1] EXCEPT ![c] = st[c]], rest[2], rest[3]>>   \* ideal: only accepted rows register
       ELSE IF Checks[c].t = "d" THEN     \* distinct count: registers every row that reaches it, never vetoes
         RunChecks(c + 1, [st EXCEPT ![c] = @ \cup {row.v[Checks[c].f]}], row, line, ror)
       ELSE IF Vetoes(c, row) THEN <<st, Err("CheckError", line, 1, c, 0), c>>
       ELSE RunChecks(c + 1, st, row, line, ror)

\* validio.py:90-144
RowVerdict(st, row, line, ror) ==
  IF ~CountOk(row) THEN <<st, Err("DataError", line, 1, 0, 0), 0>>
  ELSE IF FirstBad(row) # 0 THEN <<st, Err("FieldValueError", line, FirstBad(row), 0, 0), 0>>
  ELSE RunChecks(1, st, row, line, ror)

Cmp(op, a, b) == CASE op = "lt" -> a < b [] op = "le" -> a <= b [] op = "eq" -> a = b
                   [] op = "ge" -> a >= b [] op = "gt" -> a > b [] op = "ne" -> a # b
EndFails(c, st) == \/ Checks[c].t = "d" /\ ~Cmp(Checks[c].op, Cardinality(st[c]), Checks[c].n)
                   \/ Checks[c].t = "p" /\ Checks[c].endFail
\* first failing end check or 0 (validio.py:155-157: in declaration order, the first failure raises)
EndFailure(st) ==
  LET bad == {c \in 1..NChecks : EndFails(c, st)} IN IF bad = {} THEN 0 ELSE Min(bad)

(* ------------------------------ call log --------------------------------- *)
\* calls made while validating one row (C20): value hooks in column order up to the first rejected cell,
\* then check_row of the checks that saw the row
HookCalls(row, i) == LET last == IF FirstBad(row) = 0 THEN Len(row.c) ELSE FirstBad(row)
                         idx == {j \in 1..last : row.c[j] \in {"ok", "rej"}}
                         RECURSIVE Build(_)
                         Build(j) == IF j > last THEN <<>>
                                     ELSE (IF j \in idx THEN <<<<"value", j, i>>>> ELSE <<>>) \o Build(j + 1)
                     IN Build(1)
CheckRowCalls(n, i) == [c \in 1..n |-> <<"check_row", c, i>>]
RowCalls(row, i, seen) == IF ~CountOk(row) THEN <<>> ELSE HookCalls(row, i) \o CheckRowCalls(seen, i)
ResetCalls == [c \in 1..NChecks |-> <<"reset", c>>]
CloseCalls(endFail) == [c \in 1..(IF endFail = 0 THEN NChecks ELSE endFail) |-> <<"check_at_end", c>>]
                       \o [c \in 1..NChecks |-> <<"cleanup", c>>]
Log(s) == IF LogCalls THEN s ELSE <<>>

(* ----------------- denotation: one run on a freshly loaded CID ----------------- *)
InWindow(limit, i) == i > Header /\ (IF limit = None THEN TRUE ELSE i <= limit[1])
ItemRow(i) == <<"row", i>>
ItemErr(e) == <<"err", e.line, e.cell, e.cls, e.by, e.see>>

\* the row loop of Reader.rows() as a fold over the raw rows; a = accumulator record
\* stop = <<>> or <<k>>: the consumer stops pulling after k items (itertools.islice in validate(), or an
\* abandoned generator)
RECURSIVE ReadFold(_, _, _, _, _, _, _)
ReadFold(stop, mode, limit, tbl, i, a, ror) ==
  IF stop # None /\ a.yielded = stop[1] THEN a
  ELSE IF tbl.fault = i THEN [a EXCEPT !.exc = Err("DataFormatError", i, 0, 0, 0)] \* container fault, every mode
  ELSE IF i > Len(tbl.rows) THEN a
  ELSE IF i <= Header THEN ReadFold(stop, mode, limit, tbl, i + 1, a, ror)
  ELSE IF ~InWindow(limit, i)
       THEN ReadFold(stop, mode, limit, tbl, i + 1,
                     [a EXCEPT !.out = Append(@, ItemRow(i)), !.acc = @ + 1, !.yielded = @ + 1], ror)
  ELSE LET r == RowVerdict(a.st, tbl.rows[i], i, ror)
           cl == Log(RowCalls(tbl.rows[i], i, r[3]))
       IN IF r[2].cls = "none"
          THEN ReadFold(stop, mode, limit, tbl, i + 1,
                        [a EXCEPT !.st = r[1], !.out = Append(@, ItemRow(i)), !.acc = @ + 1, !.yielded = @ + 1,
                                  !.calls = @ \o cl], ror)
          ELSE CASE mode = "raise"    -> [a EXCEPT !.st = r[1], !.exc = r[2], !.calls = @ \o cl]
                 [] mode = "yield"    -> ReadFold(stop, mode, limit, tbl, i + 1,
                                           [a EXCEPT !.st = r[1], !.out = Append(@, ItemErr(r[2])), !.rej = @ + 1,
                                                     !.yielded = @ + 1, !.calls = @ \o cl], ror)
                 [] mode = "continue" -> ReadFold(stop, mode, limit, tbl, i + 1,
                                           [a EXCEPT !.st = r[1], !.rej = @ + 1, !.calls = @ \o cl], ror)

Acc0 == [st |-> EmptyChk, out |-> <<>>, acc |-> 0, rej |-> 0, yielded |-> 0, exc |-> NoErr, calls |-> <<>>]

\* what close() adds (validio.py:146-161 and __exit__): end checks, and which error finally escapes
\* abnormal: the `with` block is left by an exception (a raised error, or GeneratorExit of an abandoned generator)
Closed(a, ecoe, abandoned) ==
  LET ef == EndFailure(a.st)
      final == IF a.exc.cls # "none" \/ abandoned
               THEN (IF ecoe /\ ef # 0 THEN Err("CheckError", 0, 0, ef, 0) ELSE a.exc)
               ELSE (IF ef # 0 THEN Err("CheckError", 0, 0, ef, 0) ELSE NoErr)
  IN [out |-> a.out, acc |-> a.acc, rej |-> a.rej, exc |-> final, calls |-> a.calls \o Log(CloseCalls(ef))]

Unclosed(a) == [out |-> a.out, acc |-> a.acc, rej |-> a.rej, exc |-> a.exc, calls |-> a.calls]
StopOf(api, limit, end, k) == IF api = "validate" THEN limit ELSE IF end = "abandon" THEN Some(k) ELSE None
ExpectedRead(api, mode, limit, end, k, tbl, ror, ecoe) ==
  LET a0 == [Acc0 EXCEPT !.calls = Log(ResetCalls)]
      a == ReadFold(StopOf(api, limit, end, k), mode, limit, tbl, 1, a0, ror)
      abandoned == end = "abandon" /\ a.yielded = k
  IN IF end = "close" \/ (end = "abandon" /\ api = "rows") THEN Closed(a, ecoe, abandoned) ELSE Unclosed(a)

\* a written data set: header rows are written unvalidated, a rejected row raises, emits nothing and does not
\* advance the line; the row number in errors and bookkeeping counts emitted rows only
RECURSIVE WriteFold(_, _, _, _, _, _)
WriteFold(tbl, i, line, a, ror, rbw) ==
  IF i > Len(tbl.rows) THEN a
  ELSE IF line < Header
       THEN IF tbl.rows[i].w = "enc"
            THEN WriteFold(tbl, i + 1, line, [a EXCEPT !.out = Append(@, ItemErr(Err("DataFormatError", i, 0, 0, 0))), !.rej = @ + 1], ror, rbw)
            ELSE WriteFold(tbl, i + 1, line + 1, [a EXCEPT !.out = Append(@, ItemRow(i)), !.acc = @ + 1], ror, rbw)
  ELSE LET r == RowVerdict(a.st, tbl.rows[i], line + 1, ror)
           cl == Log(RowCalls(tbl.rows[i], i, r[3]))
       IN IF r[2].cls = "none" /\ tbl.rows[i].w = "enc"
          THEN WriteFold(tbl, i + 1, line,
                         [a EXCEPT !.st = IF rbw THEN r[1] ELSE a.st,
                                   !.out = Append(@, ItemErr(Err("DataFormatError", i, 0, 0, 0))), !.rej = @ + 1,
                                   !.calls = @ \o cl], ror, rbw)
          ELSE IF r[2].cls = "none"
          THEN WriteFold(tbl, i + 1, line + 1,
                         [a EXCEPT !.st = r[1], !.out = Append(@, ItemRow(i)), !.acc = @ + 1, !.calls = @ \o cl], ror, rbw)
          ELSE WriteFold(tbl, i + 1, line,
                         [a EXCEPT !.st = r[1], !.out = Append(@, ItemErr([r[2] EXCEPT !.line = i])), !.rej = @ + 1,
                                   !.calls = @ \o cl], ror, rbw)
ExpectedWrite(tbl, closed, ror, rbw) ==
  LET a == WriteFold(tbl, 1, 0, [Acc0 EXCEPT !.calls = Log(ResetCalls)], ror, rbw)
  IN IF closed THEN Closed(a, FALSE, FALSE)
     ELSE [out |-> a.out, acc |-> a.acc, rej |-> a.rej, exc |-> NoErr, calls |-> a.calls]

(* --------------------------- the operational machine --------------------------- *)
Init == chk = EmptyChk /\ sess = NoSess /\ hist = <<>> /\ calls = <<>> /\ parked = NoSess
\* every run that was begun can still be finished within MaxOps
Room == Len(hist) + (IF parked.kind = "none" THEN 0 ELSE 1) < MaxOps

OpenReader(api, ds, mode, limit, end, k) ==
  /\ UNCHANGED parked
  /\ sess.kind = "none" /\ Room
  /\ api = "validate" => mode = "raise" /\ end = "close"
  /\ api = "rows" => end \in {"close", "abandon"}          \* the generator function closes itself
  /\ end = "abandon" => k \in 1..Len(ds.rows)
  /\ end # "abandon" => k = 0
  /\ sess' = [kind |-> "reader", api |-> api, ds |-> ds, mode |-> mode, limit |-> limit, end |-> end, k |-> k,
              started |-> FALSE, pos |-> 0, out |-> <<>>, acc |-> 0, rej |-> 0, yielded |-> 0, exc |-> NoErr,
              resumed |-> FALSE, createdAt |-> Len(hist), again |-> FALSE]
  /\ chk' = IF ResetOnOpen THEN EmptyChk ELSE chk
  /\ calls' = IF ResetOnOpen THEN Log(ResetCalls) ELSE <<>>
  /\ UNCHANGED hist

Tbl == sess.ds
\* the consumer wants another item
Wants == /\ sess.exc.cls = "none"
         /\ ~(sess.api = "validate" /\ sess.limit # None /\ sess.yielded = sess.limit[1])
         /\ ~(sess.end = "abandon" /\ sess.yielded = sess.k)

\* validio.py:239-242 -- runs at the first next() of the generator
ReaderStart ==
  /\ UNCHANGED parked
  /\ sess.kind = "reader" /\ ~sess.started /\ Wants
  /\ chk' = IF ResetOnStart THEN EmptyChk ELSE chk
  /\ calls' = IF ResetOnOpen /\ ~sess.resumed THEN calls ELSE calls \o Log(ResetCalls)
  /\ sess' = [sess EXCEPT !.started = TRUE]
  /\ UNCHANGED hist

ReaderFault ==
  /\ UNCHANGED parked
  /\ sess.kind = "reader" /\ sess.started /\ Wants
  /\ Tbl.fault = sess.pos + 1
  /\ sess' = [sess EXCEPT !.exc = Err("DataFormatError", sess.pos + 1, 0, 0, 0)]
  /\ UNCHANGED <<chk, hist, calls>>

ReaderRow ==
  /\ UNCHANGED parked
  /\ sess.kind = "reader" /\ sess.started /\ Wants
  /\ Tbl.fault # sess.pos + 1
  /\ sess.pos < Len(Tbl.rows)
  /\ LET i == sess.pos + 1
         row == Tbl.rows[i]
     IN IF i <= Header
        THEN /\ sess' = [sess EXCEPT !.pos = i] /\ UNCHANGED <<chk, calls>>
        ELSE IF ~InWindow(sess.limit, i)
        THEN /\ sess' = [sess EXCEPT !.pos = i, !.acc = @ + 1, !.yielded = @ + 1, !.out = Append(@, ItemRow(i))]
             /\ UNCHANGED <<chk, calls>>
        ELSE LET r == RowVerdict(chk, row, i, RegisterOnReach) IN
             /\ chk' = r[1]
             /\ calls' = calls \o Log(RowCalls(row, i, r[3]))
             /\ IF r[2].cls = "none"
                THEN sess' = [sess EXCEPT !.pos = i, !.acc = @ + 1, !.yielded = @ + 1, !.out = Append(@, ItemRow(i))]
                ELSE CASE sess.mode = "raise"    -> sess' = [sess EXCEPT !.pos = i, !.exc = r[2]]
                       [] sess.mode = "yield"    -> sess' = [sess EXCEPT !.pos = i, !.rej = @ + 1, !.yielded = @ + 1,
                                                                          !.out = Append(@, ItemErr(r[2]))]
                       [] sess.mode = "continue" -> sess' = [sess EXCEPT !.pos = i, !.rej = @ + 1]
  /\ UNCHANGED hist

\* nothing more will be pulled
Done == \/ ~Wants
        \/ sess.started /\ sess.pos = Len(Tbl.rows) /\ Tbl.fault # sess.pos + 1
Abandoned == sess.end = "abandon" /\ sess.yielded = sess.k

RunRecord(res) == [op |-> "read", api |-> sess.api, ds |-> sess.ds, mode |-> sess.mode, limit |-> sess.limit,
                   end |-> sess.end, k |-> sess.k, deferred |-> sess.resumed /\ ~sess.again, createdAt |-> sess.createdAt,
                   again |-> sess.again, res |-> res]

\* the consumer stops; close() runs unless the reader is simply forgotten
ReaderEnd ==
  /\ UNCHANGED parked
  /\ sess.kind = "reader"
  /\ Done
  /\ IF sess.end = "forget" \/ (sess.end = "abandon" /\ sess.api # "rows")
     THEN hist' = Append(hist, RunRecord([out |-> sess.out, acc |-> sess.acc, rej |-> sess.rej, exc |-> sess.exc,
                                           calls |-> calls]))
     ELSE LET ef == EndFailure(chk)
              final == IF sess.exc.cls # "none" \/ Abandoned
                       THEN (IF EndChecksOnError /\ ef # 0 THEN Err("CheckError", 0, 0, ef, 0) ELSE sess.exc)
                       ELSE (IF ef # 0 THEN Err("CheckError", 0, 0, ef, 0) ELSE NoErr)
          IN hist' = Append(hist, RunRecord([out |-> sess.out, acc |-> sess.acc, rej |-> sess.rej, exc |-> final,
                                             calls |-> calls \o Log(CloseCalls(ef))]))
  /\ sess' = NoSess /\ calls' = <<>> /\ UNCHANGED chk

OpenWriter(ds, closes) ==
  /\ UNCHANGED parked
  /\ Writers /\ sess.kind = "none" /\ Room
  /\ ds.fault = 0
  /\ sess' = [kind |-> "writer", ds |-> ds, closes |-> closes, pos |-> 0, line |-> 0, out |-> <<>>, acc |-> 0, rej |-> 0]
  /\ chk' = IF ResetOnOpen THEN EmptyChk ELSE chk
  /\ calls' = IF ResetOnOpen THEN Log(ResetCalls) ELSE <<>>
  /\ UNCHANGED hist

\* validio.py:320-330 -- a rejected row raises, emits nothing, and writing may continue
WriterRow ==
  /\ UNCHANGED parked
  /\ sess.kind = "writer" /\ sess.pos < Len(Tbl.rows)
  /\ LET i == sess.pos + 1
         row == Tbl.rows[i]
     IN IF sess.line < Header
        THEN /\ sess' = IF row.w = "enc"
                        THEN [sess EXCEPT !.pos = i, !.rej = @ + 1, !.out = Append(@, ItemErr(Err("DataFormatError", i, 0, 0, 0)))]
                        ELSE [sess EXCEPT !.pos = i, !.line = @ + 1, !.acc = @ + 1, !.out = Append(@, ItemRow(i))]
             /\ UNCHANGED <<chk, calls>>
        ELSE LET r == RowVerdict(chk, row, sess.line + 1, RegisterOnReach) IN
             /\ chk' = IF r[2].cls = "none" /\ row.w = "enc" /\ ~RegisterBeforeWrite THEN chk ELSE r[1]
             /\ calls' = calls \o Log(RowCalls(row, i, r[3]))
             \* (validation is complete before the row is handed to the container's writer, which refuses what it cannot encode)
             /\ sess' = IF r[2].cls = "none" /\ row.w # "enc"
                        THEN [sess EXCEPT !.pos = i, !.line = @ + 1, !.acc = @ + 1, !.out = Append(@, ItemRow(i))]
                        ELSE IF r[2].cls = "none"
                        THEN [sess EXCEPT !.pos = i, !.rej = @ + 1, !.out = Append(@, ItemErr(Err("DataFormatError", i, 0, 0, 0)))]
                        ELSE [sess EXCEPT !.pos = i, !.rej = @ + 1, !.out = Append(@, ItemErr([r[2] EXCEPT !.line = i]))]
  /\ UNCHANGED hist

WriterEnd ==
  /\ UNCHANGED parked
  /\ sess.kind = "writer" /\ sess.pos = Len(Tbl.rows)
  /\ LET ef == EndFailure(chk)
         res == IF sess.closes
                THEN [out |-> sess.out, acc |-> sess.acc, rej |-> sess.rej,
                      exc |-> IF ef # 0 THEN Err("CheckError", 0, 0, ef, 0) ELSE NoErr, calls |-> calls \o Log(CloseCalls(ef))]
                ELSE [out |-> sess.out, acc |-> sess.acc, rej |-> sess.rej, exc |-> NoErr, calls |-> calls]
     IN hist' = Append(hist, [op |-> "write", api |-> "writer", ds |-> sess.ds, mode |-> "raise", limit |-> None,
                              end |-> IF sess.closes THEN "close" ELSE "forget", k |-> 0, deferred |-> FALSE,
                              createdAt |-> Len(hist), again |-> FALSE, res |-> res])
  /\ sess' = NoSess /\ calls' = <<>> /\ UNCHANGED chk

\* (the guards are repeated in front of the quantifiers so that TLC does not enumerate Tables in every state)
Idle == sess.kind = "none" /\ Room
\* a reader object that exists but whose rows() has not been called is set aside ...
Park ==
  /\ Parking /\ sess.kind = "reader" /\ sess.api = "reader" /\ ~sess.started /\ ~sess.resumed /\ parked.kind = "none"
  /\ Len(hist) + 1 < MaxOps                                      \* (something else can happen in between)
  /\ parked' = sess /\ sess' = NoSess /\ calls' = <<>> /\ UNCHANGED <<chk, hist>>
\* ... and taken up again when no other reader or writer is busy; what it logs from now on is its own data set
Resume ==
  /\ sess.kind = "none" /\ parked.kind # "none" /\ Len(hist) > parked.createdAt
  /\ sess' = [parked EXCEPT !.resumed = TRUE] /\ parked' = NoSess /\ calls' = <<>> /\ UNCHANGED <<chk, hist>>
\* the reader of the run that just ended is read once more from the beginning of its source -- whether it was forgotten,
\* abandoned midway or closed (validio.py: rows() begins a new data set; a reader whose close() has run must run its end
\* checks again for the data set it reads afterwards, and a second close() of ONE data set must do nothing)
ReadAgain(end, k) ==
  /\ Rereads /\ sess.kind = "none" /\ Room /\ Len(hist) > 0
  /\ LET p == hist[Len(hist)] IN
       /\ p.op = "read" /\ p.api = "reader" /\ p.end \in {"forget", "abandon", "close"}
       /\ end = "abandon" => k \in 1..Len(p.ds.rows)
       /\ end # "abandon" => k = 0
       /\ sess' = [kind |-> "reader", api |-> "reader", ds |-> p.ds, mode |-> p.mode, limit |-> p.limit, end |-> end, k |-> k,
                   started |-> FALSE, pos |-> 0, out |-> <<>>, acc |-> 0, rej |-> 0, yielded |-> 0, exc |-> NoErr,
                   resumed |-> TRUE, createdAt |-> Len(hist), again |-> TRUE]
  /\ calls' = <<>> /\ UNCHANGED <<chk, hist, parked>>
Next == \/ Park \/ Resume
        \/ \E e \in Ends : \E k \in 0..3 : ReadAgain(e, k)
        \/ Idle /\ \E api \in Apis, ds \in Tables, m \in Modes, l \in Limits, e \in Ends :
                     \E k \in (IF e = "abandon" THEN 1..Len(ds.rows) ELSE {0}) : OpenReader(api, ds, m, l, e, k)
        \/ ReaderStart \/ ReaderFault \/ ReaderRow \/ ReaderEnd
        \/ Idle /\ Writers /\ \E ds \in Tables, closes \in BOOLEAN : OpenWriter(ds, closes)
        \/ WriterRow \/ WriterEnd
Spec == Init /\ [][Next]_vars

(* ================================ properties ================================ *)
\* what a freshly loaded CID would have produced for run r (the shipped switch positions)
Fresh(r) ==
  IF r.op = "write" THEN ExpectedWrite(r.ds, r.end = "close", FALSE, FALSE)
  ELSE ExpectedRead(r.api, r.mode, r.limit, r.end, r.k, r.ds, FALSE, FALSE)

\* C08: every completed, closed run equals the same run on a fresh CID
Comparable(r) == TRUE
HistoryIndependence ==
  \A j \in 1..Len(hist) :
    LET r == hist[j] IN
      Comparable(r) =>
        LET e == Fresh(r) IN
          /\ r.res.out = e.out /\ r.res.exc = e.exc /\ r.res.acc = e.acc /\ r.res.rej = e.rej
\* C20: the recorded calls are the documented protocol
CallsAsDocumented ==
  \A j \in 1..Len(hist) :
    LET r == hist[j] IN Comparable(r) => r.res.calls = Fresh(r).calls

\* C20, stated from the property text (not from the fold): what the call log of a complete, closed read must look like
IsCall(e, kind) == e[1] = kind
CallIdx(log, kind) == {j \in 1..Len(log) : log[j][1] = kind}
ProtocolHolds ==
  \A n \in 1..Len(hist) :
    LET r == hist[n]
        log == r.res.calls
        tbl == r.ds
    IN (LogCalls /\ r.op = "read" /\ r.end = "close" /\ r.api = "rows" /\ tbl.fault = 0 /\ r.mode # "raise") =>
       \* every check is reset before anything else happens, and never again
       /\ \A c \in 1..NChecks : Len(log) >= NChecks /\ log[c] = <<"reset", c>>
       /\ CallIdx(log, "reset") = 1..NChecks
       \* rows in the header or beyond the limit cause no calls at all
       /\ \A j \in 1..Len(log) : log[j][1] \in {"value", "check_row"} => InWindow(r.limit, log[j][3])
       \* the value hook: only non-empty cells that passed the guards, in column order, never beyond the first rejected cell
       /\ \A i \in 1..Len(tbl.rows) : \A f \in 1..NFields :
            LET row == tbl.rows[i]
                called == \E j \in 1..Len(log) : log[j] = <<"value", f, i>>
                wanted == /\ InWindow(r.limit, i) /\ CountOk(row)
                          /\ row.c[f] \in {"ok", "rej"}
                          /\ \A g \in 1..(f - 1) : row.c[g] \in {"ok", "emp"}
            IN called <=> wanted
       /\ \A j, k \in CallIdx(log, "value") : (j < k /\ log[j][3] = log[k][3]) => log[j][2] < log[k][2]
       \* a check sees a row exactly once iff all its cells were accepted and no earlier-declared check rejected it
       /\ \A i \in 1..Len(tbl.rows) : \A c \in 1..NChecks :
            LET row == tbl.rows[i]
                seen == Cardinality({j \in 1..Len(log) : log[j] = <<"check_row", c, i>>})
                wanted == /\ InWindow(r.limit, i) /\ CountOk(row) /\ FirstBad(row) = 0
                          /\ \A d \in 1..(c - 1) : ~Vetoes(d, row)
            IN seen = (IF wanted THEN 1 ELSE 0)
       \* calls follow the rows in input order
       /\ \A j, k \in 1..Len(log) : (j < k /\ log[j][1] \in {"value", "check_row"} /\ log[k][1] \in {"value", "check_row"})
                                      => log[j][3] <= log[k][3]
       \* at close: end-of-data verdicts once, in declaration order, up to the first failure; then every check is cleaned up
       /\ LET ends == CallIdx(log, "check_at_end")
              cleans == CallIdx(log, "cleanup")
          IN /\ \A j \in ends : \A k \in CallIdx(log, "value") \cup CallIdx(log, "check_row") : k < j
             /\ \A j \in ends : \A k \in cleans : j < k
             /\ Cardinality(cleans) = NChecks /\ \A c \in 1..NChecks : \E j \in cleans : log[j] = <<"cleanup", c>>
             /\ \A j, k \in ends : j < k => log[j][2] < log[k][2]
             /\ Cardinality(ends) >= (IF NChecks > 0 THEN 1 ELSE 0)
             /\ \A j \in cleans : j > Len(log) - NChecks

\* the remaining invariants speak about single runs; they are evaluated on the run that just ended
Last == hist[Len(hist)]
JustEnded == Len(hist) > 0 /\ sess.kind = "none"
Plain(r) == r.op = "read" /\ r.end = "close" /\ r.api = "rows" /\ r.ds.fault = 0
DataRows(tbl) == {i \in 1..Len(tbl.rows) : i > Header}
OutLines(out, tag) == {out[j][2] : j \in {x \in 1..Len(out) : out[x][1] = tag}}
\* the first item of `out` that speaks about raw row i
ItemFor(out, i) == out[CHOOSE j \in 1..Len(out) : out[j][2] = i]

\* stated independently of the fold: is row i rejected by a unique / probe check, given which earlier rows were accepted?
RECURSIVE AcceptedSet(_, _)
\* rows accepted when everything is validated in yield mode (no limit), computed from the property text:
AcceptedSet(tbl, i) ==
  IF i <= Header \/ i = 0 THEN {}
  ELSE LET prev == AcceptedSet(tbl, i - 1)
           row == tbl.rows[i]
           fine == CountOk(row) /\ FirstBad(row) = 0
           dup == \E c \in 1..NChecks : Checks[c].t = "u" /\ \E b \in prev : KeyOf(c, tbl.rows[b]) = KeyOf(c, row)
           veto == \E c \in 1..NChecks : Vetoes(c, row)
       IN IF fine /\ ~dup /\ ~veto THEN prev \cup {i} ELSE prev

\* C04: accepted iff item count, every cell and every row check pass; the error names row and first offending column
RowAcceptedIff ==
  JustEnded /\ Plain(Last) /\ Last.mode = "yield" /\ Last.limit = None =>
    LET tbl == Last.ds IN
      /\ OutLines(Last.res.out, "row") = AcceptedSet(tbl, Len(tbl.rows))
      /\ OutLines(Last.res.out, "err") = DataRows(tbl) \ AcceptedSet(tbl, Len(tbl.rows))
      /\ Len(Last.res.out) = Cardinality(DataRows(tbl))
      /\ \A j \in 1..Len(Last.res.out) : \A k \in 1..Len(Last.res.out) : j < k => Last.res.out[j][2] < Last.res.out[k][2]
ErrorLocation ==
  JustEnded /\ Plain(Last) /\ Last.mode = "yield" /\ Last.limit = None =>
    LET tbl == Last.ds IN
      \A j \in 1..Len(Last.res.out) :
        LET it == Last.res.out[j] IN
          it[1] = "err" =>
            LET row == tbl.rows[it[2]] IN
              /\ ~CountOk(row) => it[3] = 1 /\ it[4] = "DataError"
              /\ CountOk(row) /\ FirstBad(row) # 0 => it[3] = FirstBad(row) /\ it[4] = "FieldValueError"
              /\ CountOk(row) /\ FirstBad(row) = 0 => it[4] = "CheckError" /\ it[3] = 1

\* C05: a row is rejected by a unique check iff an earlier ACCEPTED row has the same key; the error refers back to
\* the first occurrence
UniqueIffEarlierAccepted ==
  JustEnded /\ Plain(Last) /\ Last.mode = "yield" /\ Last.limit = None =>
    LET tbl == Last.ds
        accepted == OutLines(Last.res.out, "row")
    IN \A i \in DataRows(tbl) :
         LET row == tbl.rows[i]
             it == ItemFor(Last.res.out, i)
             byUnique == it[1] = "err" /\ it[4] = "CheckError" /\ it[5] > 0 /\ Checks[it[5]].t = "u"
             hasTwin == \E c \in 1..NChecks : Checks[c].t = "u" /\
                          \E b \in accepted : b < i /\ KeyOf(c, tbl.rows[b]) = KeyOf(c, row)
         IN /\ byUnique => hasTwin
            /\ (CountOk(row) /\ FirstBad(row) = 0 /\ hasTwin) => it[1] = "err"
            /\ byUnique => it[6] = Min({b \in accepted : b < i /\ KeyOf(it[5], tbl.rows[b]) = KeyOf(it[5], row)})
\* C05: the end-of-data verdict of a distinct count is about the rows that reached the check
Reached(tbl, c, out) ==
  {i \in DataRows(tbl) : LET it == ItemFor(out, i) IN it[1] = "row" \/ (it[4] = "CheckError" /\ it[5] > c)}
DistinctAtEnd ==
  JustEnded /\ Plain(Last) /\ Last.mode = "yield" /\ Last.limit = None =>
    LET tbl == Last.ds
        failing == {c \in 1..NChecks : Checks[c].t = "d" /\
                      ~Cmp(Checks[c].op, Cardinality({tbl.rows[i].v[Checks[c].f] : i \in Reached(tbl, c, Last.res.out)}),
                           Checks[c].n)}
        others == {c \in 1..NChecks : Checks[c].t = "p" /\ Checks[c].endFail}
    IN IF failing \cup others = {} THEN Last.res.exc.cls = "none"
       ELSE Last.res.exc.cls = "CheckError" /\ Last.res.exc.by = Min(failing \cup others)

\* C06: the three modes are presentations of one verdict sequence; counters add up; a fault stops every mode
RowsOnly(out) == SelectSeq(out, LAMBDA it : it[1] = "row")
FirstErrIdx(out) == LET E == {j \in 1..Len(out) : out[j][1] = "err"} IN IF E = {} THEN 0 ELSE Min(E)
ModesAgree ==
  JustEnded /\ Last.op = "read" /\ Last.end = "close" /\ Last.api = "rows" /\ Last.mode = "yield" =>
    LET tbl == Last.ds
        y == Last.res
        c == ExpectedRead("rows", "continue", Last.limit, "close", 0, tbl, RegisterOnReach, EndChecksOnError)
        r == ExpectedRead("rows", "raise", Last.limit, "close", 0, tbl, RegisterOnReach, EndChecksOnError)
        fe == FirstErrIdx(y.out)
    IN /\ c.out = RowsOnly(y.out)
       /\ c.acc = y.acc /\ c.rej = y.rej
       /\ IF fe = 0 THEN r.out = y.out
          ELSE /\ r.out = SubSeq(y.out, 1, fe - 1)
               /\ (~EndChecksOnError => ItemErr(r.exc) = y.out[fe])
CountersAddUp ==
  JustEnded /\ Last.op = "read" /\ Last.end = "close" /\ Last.api # "validate" /\ Last.mode # "raise"
            /\ Last.ds.fault = 0 =>
    Last.res.acc + Last.res.rej = Cardinality(DataRows(Last.ds))
FaultStopsEveryMode ==
  JustEnded /\ Last.op = "read" /\ Last.end = "close" /\ Last.api = "rows" /\ Last.ds.fault # 0 =>
    \/ Last.res.exc.cls = "DataFormatError" /\ Last.res.exc.line = Last.ds.fault
    \/ Last.mode = "raise" /\ Last.res.exc.cls # "none" /\ Last.res.exc.line < Last.ds.fault
    \/ EndChecksOnError /\ Last.res.exc.cls = "CheckError"

\* C07: header rows are neither validated nor returned; a rejection is reported iff the row number is at most N
HeaderNeverValidated ==
  JustEnded /\ Last.op = "read" =>
    \A j \in 1..Len(Last.res.out) : Last.res.out[j][2] > Header
LimitBoundary ==
  JustEnded /\ Plain(Last) /\ Last.mode = "yield" /\ Last.limit # None =>
    LET tbl == Last.ds
        n == Last.limit[1]
        full == ExpectedRead("rows", "yield", None, "close", 0, [rows |-> SubSeq(tbl.rows, 1, IF n < Len(tbl.rows) THEN n ELSE Len(tbl.rows)),
                                                      fault |-> 0], RegisterOnReach, EndChecksOnError)
    IN /\ \A j \in 1..Len(Last.res.out) :
            LET it == Last.res.out[j] IN
              /\ it[1] = "err" => it[2] <= n
              /\ it[2] > n => it[1] = "row"
       \* up to the limit the run is the run on the first n rows
       /\ SelectSeq(Last.res.out, LAMBDA it : it[2] <= n) = full.out
       /\ Len(Last.res.out) = Cardinality(DataRows(tbl))
ValidateStopsAfterN ==
  JustEnded /\ Last.op = "read" /\ Last.api = "validate" /\ Last.limit # None /\ Last.ds.fault = 0 =>
    /\ Last.res.acc <= Last.limit[1]
    /\ Last.res.exc.cls \in {"DataError", "FieldValueError"} => Last.res.exc.line <= Last.limit[1]
    /\ Last.res.exc.cls = "CheckError" /\ Last.res.exc.line # 0 => Last.res.exc.line <= Last.limit[1]

\* how reading back what a writer emitted ends (result record res of the writer, table tbl)
BackExc(res, tbl) ==
  LET emitted == RowsOnly(res.out)
      written == [rows |-> [j \in 1..Len(emitted) |-> tbl.rows[emitted[j][2]]], fault |-> 0]
  IN ExpectedRead("rows", "yield", None, "close", 0, written, FALSE, FALSE).exc
\* C14: a writer emits exactly the rows it accepted, and its output validates again
WriterEmitsAccepted ==
  JustEnded /\ Last.op = "write" =>
    LET tbl == Last.ds
        emitted == RowsOnly(Last.res.out)
    IN /\ Len(emitted) = Last.res.acc
       /\ Last.res.acc + Last.res.rej = Len(tbl.rows)
       /\ \A j \in 1..Len(Last.res.out) : Last.res.out[j][2] = j
OutputRevalidates ==
  JustEnded /\ Last.op = "write" =>
    LET tbl == Last.ds
        emitted == RowsOnly(Last.res.out)
        written == [rows |-> [j \in 1..Len(emitted) |-> tbl.rows[emitted[j][2]]], fault |-> 0]
        back == ExpectedRead("rows", "yield", None, "close", 0, written, RegisterOnReach, EndChecksOnError)
    IN /\ \A j \in 1..Len(back.out) : back.out[j][1] = "row"
       /\ Len(back.out) = IF Len(emitted) > Header THEN Len(emitted) - Header ELSE 0
       /\ (Last.end = "close" /\ Len(emitted) >= Header) => back.exc = Last.res.exc

\* the bookkeeping of the checks changes only inside a session
ChecksOnlyChangeInsideASession == [][sess.kind = "none" /\ sess'.kind = "none" => chk' = chk]_vars

TypeOK == /\ sess.kind \in {"none", "reader", "writer"}
          /\ Len(hist) <= MaxOps
          /\ DOMAIN chk = 1..NChecks

\* behaviour generation: one JSON line per complete history
Emit == (sess.kind = "none" /\ Len(hist) = MaxOps) =>
   PrintT(<<"VEC", ToJson([hist |-> [j \in 1..Len(hist) |->
                               [run |-> hist[j],
                                fresh |-> Fresh(hist[j]),
                                pinnedror |-> IF hist[j].op = "read"
                                              THEN ExpectedRead(hist[j].api, hist[j].mode, hist[j].limit, hist[j].end, hist[j].k,
                                                                hist[j].ds, TRUE, FALSE)
                                              ELSE ExpectedWrite(hist[j].ds, hist[j].end = "close", TRUE, FALSE),
                                \* known finding D14: what the code does when the container refuses a row the checks have seen
                                pinnedrbw |-> IF hist[j].op = "read" THEN Fresh(hist[j])
                                              ELSE ExpectedWrite(hist[j].ds, hist[j].end = "close", FALSE, TRUE),
                                rbwBackDiffers |-> hist[j].op = "write" /\ hist[j].end = "close" /\
                                                   BackExc(ExpectedWrite(hist[j].ds, TRUE, FALSE, TRUE), hist[j].ds)
                                                     # ExpectedWrite(hist[j].ds, TRUE, FALSE, TRUE).exc]],
                           header |-> Header, nfields |-> NFields, checks |-> Checks, logcalls |-> LogCalls])>>)
=============================================================================
