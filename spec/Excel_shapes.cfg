SPECIFICATION Spec
CONSTANTS
  CellPool <- FewCells
  MaxRows = 2
  MaxCols = 2
  SheetChoices <- AllSheets
  ReadsRequestedSheet = TRUE
INVARIANT TypeOK
INVARIANT ReadsTheRequestedSheet
INVARIANT DatesConsistent
INVARIANT Emit
CHECK_DEADLOCK FALSE
