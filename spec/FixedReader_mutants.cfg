SPECIFICATION Spec
CONSTANTS
  WidthLists <- MutWidths
  Delims <- AllDelims
  MaxLen = 0
  MaxRecords = 4
  Mutants = TRUE
INVARIANT TypeOK
INVARIANT LosslessAndAligned
INVARIANT ConsumedSoFar
INVARIANT BuiltIsAccepted
INVARIANT Emit
CHECK_DEADLOCK FALSE
