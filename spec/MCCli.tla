-------------------------------- MODULE MCCli --------------------------------
EXTENDS Cli
AllCids == {"valid", "rejected", "missing"}
AllKinds == {"accepted", "fieldRejected", "dupRejected", "shares", "lateDamage", "endRejected", "missing", "directory"}
AllUntils == {"absent", "all", "0", "k2", "k4", "k9", "huge"}
OkArgs == {"ok"}
BadArgs == {"none", "unknownOption", "untilTooSmall", "untilNotNumber", "badLogLevel", "untilWithoutValue", "pluginsWithoutValue", "optionBetweenCidAndData"}
Plain == {"plain"}
AllDecorations == {"plain", "logDebug", "logCritical", "pluginsEmpty", "shortUntil", "untilEquals", "optionsLast"}
SomeKinds == {"accepted", "fieldRejected", "dupRejected", "missing"}
SomeUntils == {"absent", "k2", "0"}
NoHeader == {0}
SomeHeaders == {1, 2}
HeaderKinds == {"accepted", "fieldRejected", "lateDamage"}     \* (a duplicate of a header row is no duplicate: not used here)
HeaderUntils == {"absent", "0", "k1", "k2", "k9"}
OneCid == {"valid"}
NoFiles == {"accepted"}
=============================================================================
