-------------------------------- MODULE MCCli --------------------------------
EXTENDS Cli
AllCids == {"valid", "rejected", "missing"}
AllKinds == {"accepted", "fieldRejected", "dupRejected", "shares", "lateDamage", "missing", "directory"}
AllUntils == {"absent", "all", "0", "k2", "k9"}
OkArgs == {"ok"}
BadArgs == {"none", "unknownOption", "untilTooSmall", "untilNotNumber"}
OneCid == {"valid"}
NoFiles == {"accepted"}
=============================================================================
