-------------------------------- MODULE Excel --------------------------------
(***************************************************************************)
(* Reading Excel workbooks (property C16): cutplace/rowio.py:70-141,       *)
(* _excel_cell_value and excel_rows.                                       *)
(*                                                                         *)
(* A workbook is a sequence of sheets, a sheet a sequence of rows of cells *)
(* of a kind: string, whole number (digit sequence, up to 2^53), dyadic    *)
(* fraction k / 2^j, boolean, date (serial day number of the 1900 date     *)
(* system), date with time, pure time (seconds of the day).  Render says   *)
(* what text each must be read as.  The serial -> civil date mapping is    *)
(* computed by integer arithmetic in two independent ways: the closed      *)
(* formula a reader would use (CivilOfSerial) and counting month lengths   *)
(* (SerialOfCivil); TLC checks that they are inverse for every date the    *)
(* harness writes, so the oracle of the serial mapping is the              *)
(* specification, not the producer of the workbook.                        *)
(*                                                                         *)
(*   ReadRow   excel_rows: one row of the requested sheet, padded to the   *)
(*             sheet's width                                               *)
(* Deviation switch ReadsRequestedSheet: TRUE (shipped); FALSE: pinned     *)
(* code always reads the first sheet (D3).                                 *)
(***************************************************************************)
EXTENDS Integers, Sequences, FiniteSets, TLC, Json

CONSTANTS CellPool,            \* set of cells tried
          MaxRows, MaxCols,    \* sheets of up to MaxRows ragged rows of up to MaxCols cells
          SheetChoices,        \* set of <<number of sheets, requested sheet>>
          ReadsRequestedSheet

DigitChar == <<"0", "1", "2", "3", "4", "5", "6", "7", "8", "9">>
RECURSIVE DigitsOf(_)
DigitsOf(n) == IF n < 10 THEN <<DigitChar[n + 1]>> ELSE Append(DigitsOf(n \div 10), DigitChar[(n % 10) + 1])
Two(n) == <<DigitChar[(n \div 10) + 1], DigitChar[(n % 10) + 1]>>
Four(n) == Two(n \div 100) \o Two(n % 100)
RECURSIVE Pow(_, _)
Pow(b, e) == IF e = 0 THEN 1 ELSE b * Pow(b, e - 1)

(* ------------------------------ the calendar, two ways ------------------------------ *)
IsLeap(y) == (y % 4 = 0 /\ y % 100 # 0) \/ y % 400 = 0
DaysIn(y, m) == IF m \in {4, 6, 9, 11} THEN 30 ELSE IF m = 2 THEN (IF IsLeap(y) THEN 29 ELSE 28) ELSE 31
\* counting: days from 1900-03-01 (serial 61) to y-m-d
LeapsBefore(y) == ((y - 1) \div 4) - ((y - 1) \div 100) + ((y - 1) \div 400)        \* leap years in 1..y-1
DaysBeforeYear(y) == 365 * (y - 1) + LeapsBefore(y)                                 \* days in years 1..y-1
RECURSIVE DaysBeforeMonth(_, _)
DaysBeforeMonth(y, m) == IF m = 1 THEN 0 ELSE DaysIn(y, m - 1) + DaysBeforeMonth(y, m - 1)
Ordinal(y, m, d) == DaysBeforeYear(y) + DaysBeforeMonth(y, m) + d                   \* 0001-01-01 is day 1
SerialOfCivil(y, m, d) == Ordinal(y, m, d) - Ordinal(1899, 12, 30)                  \* 1900 date system, valid from 1900-03-01
\* closed formula (civil from days; era based), the way a reader computes it
CivilOfSerial(s) ==
  LET z == s + Ordinal(1899, 12, 30) - 1 + 306          \* days since 0000-03-01
      era == z \div 146097
      doe == z - era * 146097
      yoe == (doe - doe \div 1460 + doe \div 36524 - doe \div 146096) \div 365
      doy == doe - (365 * yoe + yoe \div 4 - yoe \div 100)
      mp == (5 * doy + 2) \div 153
      d == doy - (153 * mp + 2) \div 5 + 1
      m == IF mp < 10 THEN mp + 3 ELSE mp - 9
      y == yoe + era * 400 + (IF m <= 2 THEN 1 ELSE 0)
  IN <<y, m, d>>

(* ------------------------------ what a cell must be read as ------------------------------ *)
\* cells: [k |-> kind, ...]; the text is a sequence of characters
TimeText(sec) == Two(sec \div 3600) \o <<":">> \o Two((sec % 3600) \div 60) \o <<":">> \o Two(sec % 60)
DateText(c) == Four(c[1]) \o <<"-">> \o Two(c[2]) \o <<"-">> \o Two(c[3])
\* k / 2^j written as the shortest decimal text: k * 5^j with j decimals, trailing zeros removed
RECURSIVE StripZeros(_)
StripZeros(ds) == IF ds # <<>> /\ ds[Len(ds)] = "0" THEN StripZeros(SubSeq(ds, 1, Len(ds) - 1)) ELSE ds
PadLeft(ds, n) == IF Len(ds) >= n THEN ds ELSE [i \in 1..(n - Len(ds)) |-> "0"] \o ds
DyadicText(neg, k, j) ==
  LET scaled == k * Pow(5, j)                                  \* value * 10^j
      intPart == scaled \div Pow(10, j)
      frac == StripZeros(PadLeft(DigitsOf(scaled % Pow(10, j)), j))
  IN (IF neg THEN <<"-">> ELSE <<>>) \o DigitsOf(intPart) \o (IF frac = <<>> THEN <<>> ELSE <<".">> \o frac)
Render(c) ==
  CASE c.k = "string" -> c.text
    [] c.k = "empty" -> <<>>
    [] c.k = "whole" -> (IF c.neg THEN <<"-">> ELSE <<>>) \o c.digits                     \* no fractional suffix
    [] c.k = "dyadic" -> DyadicText(c.neg, c.num, c.exp)
    [] c.k = "bool" -> IF c.b THEN <<"1">> ELSE <<"0">>
    [] c.k = "date" -> DateText(CivilOfSerial(c.serial)) \o <<" ">> \o TimeText(0)
    [] c.k = "datetime" -> DateText(CivilOfSerial(c.serial)) \o <<" ">> \o TimeText(c.sec)
    [] c.k = "time" -> TimeText(c.sec)
    \* a point in time between two seconds (what =NOW() and clock time stamps give): the nearest whole second is shown, the
    \* documented forms have no fraction
    [] c.k = "datetimems" -> DateText(CivilOfSerial(c.serial)) \o <<" ">> \o TimeText(c.sec + (IF c.ms >= 500 THEN 1 ELSE 0))
    [] c.k = "timems" -> TimeText(c.sec + (IF c.ms >= 500 THEN 1 ELSE 0))

(* ------------------------------ the machine ------------------------------ *)
VARIABLES book,            \* sequence of sheets; a sheet is a sequence of rows; a row a sequence of cells
          wanted,
          pos, rows, status   \* rows read so far; "build" | "reading" | "done" | "nosheet"
vars == <<book, wanted, pos, rows, status>>

Init == /\ \E s \in SheetChoices : book = [i \in 1..s[1] |-> <<>>] /\ wanted = s[2]
        /\ pos = 0 /\ rows = <<>> /\ status = "build"
\* the sheet under construction is the last one that is not the decoy: every sheet gets its own content
Target == IF wanted <= Len(book) THEN wanted ELSE 1
Max(S) == CHOOSE m \in S : \A o \in S : m >= o
AddRow == /\ status = "build" /\ Len(book[Target]) < MaxRows
          /\ \E c \in CellPool : book' = [book EXCEPT ![Target] = Append(@, <<c>>)]
          /\ UNCHANGED <<wanted, pos, rows, status>>
AddCell == /\ status = "build" /\ book[Target] # <<>> /\ Len(book[Target][Len(book[Target])]) < MaxCols
           /\ \E c \in CellPool : book' = [book EXCEPT ![Target][Len(book[Target])] = Append(@, c)]
           /\ UNCHANGED <<wanted, pos, rows, status>>
\* what a workbook file can hold: its used range ends at the last cell with content (no trailing empty row or column)
HasContent(c) == c.k # "empty" /\ ~(c.k = "string" /\ c.text = <<>>)
Representable(sh) ==
  IF sh = <<>> THEN TRUE
  ELSE LET w == Max({Len(sh[i]) : i \in 1..Len(sh)}) IN
       /\ \E x \in 1..Len(sh[Len(sh)]) : HasContent(sh[Len(sh)][x])
       /\ \E y \in 1..Len(sh) : Len(sh[y]) = w /\ HasContent(sh[y][w])
Start == /\ status = "build" /\ Representable(book[Target])
         /\ status' = IF wanted > Len(book) THEN "nosheet" ELSE "reading"
         /\ UNCHANGED <<book, wanted, pos, rows>>
Sheet == book[IF ReadsRequestedSheet THEN wanted ELSE 1]
Width(sh) == IF sh = <<>> THEN 0 ELSE Max({Len(sh[i]) : i \in 1..Len(sh)})
\* rowio.py:131-137
ReadRow == /\ status = "reading" /\ pos < Len(Sheet)
           /\ LET r == Sheet[pos + 1] IN
              rows' = Append(rows, [i \in 1..Width(Sheet) |-> IF i <= Len(r) THEN Render(r[i]) ELSE <<>>])
           /\ pos' = pos + 1 /\ UNCHANGED <<book, wanted, status>>
Finish == /\ status = "reading" /\ pos = Len(Sheet) /\ status' = "done" /\ UNCHANGED <<book, wanted, pos, rows>>
Next == AddRow \/ AddCell \/ Start \/ ReadRow \/ Finish
Spec == Init /\ [][Next]_vars

(* ------------------------------ C16 ------------------------------ *)
Expected(sh) == [y \in 1..Len(sh) |-> [x \in 1..Width(sh) |-> IF x <= Len(sh[y]) THEN Render(sh[y][x]) ELSE <<>>]]
ReadsTheRequestedSheet == status = "done" => rows = Expected(book[wanted])
\* the two descriptions of the 1900 date system agree on every date used
DatesConsistent == \A c \in CellPool : c.k \in {"date", "datetime"} =>
   LET civ == CivilOfSerial(c.serial) IN SerialOfCivil(civ[1], civ[2], civ[3]) = c.serial /\ civ[2] \in 1..12 /\ civ[3] \in 1..DaysIn(civ[1], civ[2])
TypeOK == status \in {"build", "reading", "done", "nosheet"}
Emit == status \in {"done", "nosheet"} =>
   PrintT(<<"VEC", ToJson([book |-> book, wanted |-> wanted, status |-> status,
                            expected |-> IF wanted <= Len(book) THEN Expected(book[wanted]) ELSE <<>>])>>)
=============================================================================
