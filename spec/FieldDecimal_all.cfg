SPECIFICATION Spec
CONSTANTS
  Conventions <- Convs
  Integrals <- Ints
  Fractions <- Fracs
  Rules <- DRules
INVARIANT TypeOK
INVARIANT DecimalMeansWhatItSays
INVARIANT Emit
CHECK_DEADLOCK FALSE
