------------------------- MODULE MCSessionCallsFault -------------------------
(* the call protocol (C20) when the container breaks off: rows over the cell classes of the recording fields, with a      *)
(* container fault at every row boundary -- the checks have been reset and have seen rows, so the run that ends with a    *)
(* data-format error still has to ask for the end-of-data verdicts' clean-up                                              *)
EXTENDS MCSessionBase
CONSTANT MaxRows
C(a, b, v) == [w |-> "ok", c |-> <<a, b>>, v |-> <<v, 1>>]
CallRows == {C(a, b, 1) : a \in {"ok", "rej", "emp"}, b \in {"ok", "rej"}} \cup {C("ok", "ok", 2)}
TheTables == UNION {{F(r, k) : k \in 1..(Len(r) + 1)} : r \in SeqsUpTo(CallRows, MaxRows)}
=============================================================================
