------------------------------ MODULE SharedCid ------------------------------
(***************************************************************************)
(* Two validators that are alive at the same time on ONE Cid object        *)
(* (properties C05 / C08; cutplace/interface.py:57-59: the checks belong   *)
(* to the Cid; validio.py:63-65 and 262-263: every new reader or writer    *)
(* and every start of rows() resets them).                                 *)
(*                                                                         *)
(* Session.tla runs one reader or writer at a time (plus one reader that   *)
(* exists but has not been started).  Here session A reads table A while   *)
(* session B -- a second reader or a writer -- works on table B, their     *)
(* steps interleaved in every order: the copy loop                         *)
(*     for row in rows(cid, source): writer.write_row(row)                 *)
(* and two files validated in lockstep are such interleavings.             *)
(*                                                                         *)
(* The machine keeps the bookkeeping of an IsUnique check twice: `shared`, *)
(* one set for the Cid as the code has it, and `own`, one set per session  *)
(* as "rows of the same data set" asks for.  The switch decides which one  *)
(* the verdicts are taken from:                                            *)
(*   ChecksPerSession  TRUE: every validator has bookkeeping of its own    *)
(*                     (C05 / C08 hold for simultaneous validators);       *)
(*                     FALSE: shipped code, one bookkeeping per Cid (D45,  *)
(*                     known finding)                                      *)
(***************************************************************************)
EXTENDS Integers, Sequences, FiniteSets, TLC, Json

CONSTANTS Keys,            \* key values of the rows
          MaxRows,         \* tables of up to MaxRows rows (every row is fine for its fields; only the key matters)
          BKinds,          \* kinds of session B: subset of {"reader", "writer"}
          ChecksPerSession

Sessions == {"A", "B"}
Tables == UNION {[1..n -> Keys] : n \in 0..MaxRows}

VARIABLES tbl,      \* [Sessions -> Tables]
          kindB,
          st,       \* [Sessions -> "new" | "open" | "running" | "done"]
          pos,      \* rows consumed
          shared,   \* keys registered in the Cid's check
          own,      \* [Sessions -> keys registered by the session itself]
          out,      \* [Sessions -> verdicts as produced: sequence of "ok" | "dup"]
          sched     \* the steps taken, for the replay
vars == <<tbl, kindB, st, pos, shared, own, out, sched>>

Kind(s) == IF s = "A" THEN "reader" ELSE kindB
Init == /\ tbl \in [Sessions -> Tables] /\ kindB \in BKinds
        /\ st = [s \in Sessions |-> "new"] /\ pos = [s \in Sessions |-> 0]
        /\ shared = {} /\ own = [s \in Sessions |-> {}] /\ out = [s \in Sessions |-> <<>>] /\ sched = <<>>
Same == UNCHANGED <<tbl, kindB>>
\* Reader.__init__ / Writer.__init__: the checks of the Cid are reset (validio.py:63-65); a writer is ready at once
Create(s) == /\ st[s] = "new" /\ Same
             /\ shared' = {} /\ own' = [own EXCEPT ![s] = {}]
             /\ st' = [st EXCEPT ![s] = IF Kind(s) = "writer" THEN "running" ELSE "open"]
             /\ sched' = Append(sched, <<"create", s>>) /\ UNCHANGED <<pos, out>>
\* one row: the first next() of Reader.rows() resets the checks once more (validio.py:262-263) and goes on to its first
\* row without giving anybody else a turn; then IsUniqueCheck.check_row (checks.py:201-215)
Row(s) == /\ st[s] \in {"open", "running"} /\ pos[s] < Len(tbl[s]) /\ Same
          /\ LET k == tbl[s][pos[s] + 1]
                 sharedNow == IF st[s] = "open" THEN {} ELSE shared
                 ownNow == IF st[s] = "open" THEN {} ELSE own[s]
                 seen == IF ChecksPerSession THEN ownNow ELSE sharedNow
             IN /\ out' = [out EXCEPT ![s] = Append(@, IF k \in seen THEN "dup" ELSE "ok")]
                /\ shared' = IF k \in seen THEN sharedNow ELSE sharedNow \cup {k}
                /\ own' = [own EXCEPT ![s] = IF k \in seen THEN ownNow ELSE ownNow \cup {k}]
          /\ pos' = [pos EXCEPT ![s] = @ + 1]
          /\ st' = [st EXCEPT ![s] = IF pos[s] + 1 = Len(tbl[s]) THEN "done" ELSE "running"]
          /\ sched' = Append(sched, <<"row", s>>)
\* a table without rows: the reader's first next() only resets, a writer has nothing to do
Finish(s) == /\ st[s] \in {"open", "running"} /\ Len(tbl[s]) = 0 /\ Same
             /\ shared' = IF st[s] = "open" THEN {} ELSE shared
             /\ st' = [st EXCEPT ![s] = "done"]
             /\ sched' = Append(sched, <<"end", s>>) /\ UNCHANGED <<pos, own, out>>
Next == \E s \in Sessions : Create(s) \/ Row(s) \/ Finish(s)
Spec == Init /\ [][Next]_vars

(* ------------------------------ C05 / C08 for simultaneous validators ------------------------------ *)
\* verdicts of a table read alone: "dup" iff an earlier row of the SAME table has the key
Alone(t) == [i \in 1..Len(t) |-> IF \E j \in 1..(i - 1) : t[j] = t[i] THEN "dup" ELSE "ok"]
SessionsDoNotDisturbEachOther == \A s \in Sessions : out[s] = SubSeq(Alone(tbl[s]), 1, pos[s])
TypeOK == \A s \in Sessions : pos[s] \in 0..Len(tbl[s]) /\ st[s] \in {"new", "open", "running", "done"}
AllDone == \A s \in Sessions : st[s] = "done"
Emit == AllDone =>
   PrintT(<<"VEC", ToJson([tblA |-> tbl["A"], tblB |-> tbl["B"], kindB |-> kindB, sched |-> sched,
                            outA |-> out["A"], outB |-> out["B"], aloneA |-> Alone(tbl["A"]), aloneB |-> Alone(tbl["B"])])>>)
=============================================================================
