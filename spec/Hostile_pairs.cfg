SPECIFICATION Spec
CONSTANTS
  Formats <- AllFormats
  Classes <- FewClasses
  Pairs = TRUE
INVARIANT LegalOutcomes
INVARIANT NeverExitFour
INVARIANT Emit
CHECK_DEADLOCK FALSE
