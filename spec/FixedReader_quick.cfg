SPECIFICATION Spec
CONSTANTS
  WidthLists <- SomeWidths
  Delims <- AllDelims
  MaxLen = 5
  MaxRecords = 0
  Mutants = FALSE
INVARIANT TypeOK
INVARIANT LosslessAndAligned
INVARIANT ConsumedSoFar
INVARIANT BuiltIsAccepted
INVARIANT Emit
CHECK_DEADLOCK FALSE
