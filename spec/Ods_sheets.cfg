SPECIFICATION Spec
CONSTANTS
  Chars <- SmallChars
  MaxRows = 1
  MaxCells = 1
  MaxLen = 1
  FeatureSets <- SomeFeatures
  Sheets <- AllSheets
  CollectAllText = TRUE
  ExpandRowRepeats = TRUE
  DescendsIntoRowContainers = TRUE
  ReadsCoveredCells = TRUE
INVARIANT TypeOK
INVARIANT ReadsTheLogicalTable
INVARIANT MissingSheetIsRefused
INVARIANT Emit
CHECK_DEADLOCK FALSE
