------------------------------ MODULE MCCidLoad ------------------------------
EXTENDS CidLoad
AllFormats == {"delimited", "fixed", "excel", "ods"}
FieldTags == {"kw", "digit", "blank", "nonascii", "emptyname", "badmark", "unknowntype", "nottype", "badlength", "lengthorder",
              "neglength", "fixed:nolength", "fixed:range", "fixed:zero", "intrule", "intlength", "choicecomma", "choiceempty",
              "constx", "regex", "example", "examplelength",
              \* a length / rule of several parts whose FIRST part is fine and whose later part is refused
              "lengthlate", "rulelate"}
CheckTags == {"emptydesc", "unknowntype", "emptytype", "desconly", "u:undeclared", "u:empty", "u:dup", "u:comma", "d:undeclared", "d:notbool",
              "d:syntax"}
AllDeco == SUBSET {"comments", "blanks", "late"}
NoDeco == {{}}
=============================================================================
