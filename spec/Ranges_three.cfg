SPECIFICATION Spec
CONSTANTS
  Lim <- QLim
  Probe <- QProbe
  MaxItems = 3
  Spellings <- QSpell
INVARIANT TypeOK
INVARIANT WellFormedAccepted
INVARIANT MeansWhatItSays
CHECK_DEADLOCK FALSE
