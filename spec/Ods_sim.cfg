SPECIFICATION Spec
CONSTANTS
  Chars <- AllChars
  MaxRows = 6
  MaxCells = 8
  MaxLen = 5
  FeatureSets <- AllFeatures
  Sheets <- AllSheets
  CollectAllText = TRUE
  ExpandRowRepeats = TRUE
  DescendsIntoRowContainers = TRUE
  ReadsCoveredCells = TRUE
INVARIANT TypeOK
INVARIANT ReadsTheLogicalTable
INVARIANT MissingSheetIsRefused
INVARIANT Emit
CHECK_DEADLOCK FALSE
