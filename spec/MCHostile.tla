------------------------------ MODULE MCHostile ------------------------------
EXTENDS Hostile
AllFormats == {"delimited", "fixed", "excel", "ods"}
AllClasses == {"unterminatedQuote", "strayOperator", "hugeNumber", "negative", "nonAscii", "nan", "infinity", "empty", "blank", "nul",
               "backslash", "badRegex", "lineBreak", "longText", "code", "brackets", "percent", "ellipsisOnly", "commaOnly", "hexLike",
               "exponent", "quoteOnly", "unicodeEscape", "keyword",
               \* values that are hostile to one particular consumer: range parser, character parser, property lookup, int <-> str
               \* conversion, regular expression compiler, tokenizer, codec lookup, date layout translation
               "openRanges", "stringPrefix", "beyondUnicode", "internalName", "hugeDigits", "hugeRepetition", "indentedLines",
               "codecName", "repeatedPlaceholder",
               \* second batch (bug hunts): the tokenizer's own failures, exponents beyond C integers, deep nesting, line
               \* continuations, names of builtins where field names are expected
               "tokenizerBytes", "hugeExponent", "deepNesting", "lineContinuation", "builtinName",
               \* a list of twenty thousand items in one cell (code lists of Choice fields, ranges): tokenizing must not take memory
               \* by the square of the length
               "longList",
               \* a count expression that only fails for the count the data give
               "countDependent"}
FewClasses == {"unterminatedQuote", "hugeNumber", "nan", "commaOnly", "badRegex", "nul", "strayOperator", "nonAscii"}
=============================================================================
