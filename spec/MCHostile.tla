------------------------------ MODULE MCHostile ------------------------------
EXTENDS Hostile
AllFormats == {"delimited", "fixed", "excel", "ods"}
AllClasses == {"unterminatedQuote", "strayOperator", "hugeNumber", "negative", "nonAscii", "nan", "infinity", "empty", "blank", "nul",
               "backslash", "badRegex", "lineBreak", "longText", "code", "brackets", "percent", "ellipsisOnly", "commaOnly", "hexLike",
               "exponent", "quoteOnly", "unicodeEscape", "keyword"}
FewClasses == {"unterminatedQuote", "hugeNumber", "nan", "commaOnly", "badRegex", "nul", "strayOperator", "nonAscii"}
=============================================================================
