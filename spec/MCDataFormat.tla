---------------------------- MODULE MCDataFormat ----------------------------
EXTENDS DataFormat
AllFormats == {"delimited", "fixed", "excel", "ods"}
Ch(sp, cp) == [kind |-> "char", sp |-> sp, cp |-> cp]
Nm(n) == [kind |-> "name", name |-> n]
In(n) == [kind |-> "int", n |-> n]
Bad(k) == [kind |-> k]
\* which spelling can write which code point (the others are not asked for)
CanSpell(sp, cp) ==
  CASE sp = "literal" -> cp >= 33 /\ cp # 127 /\ cp \notin 48..57            \* printable, not a digit (a digit is a decimal code)
    [] sp = "dec" -> TRUE
    [] sp = "hex" -> TRUE
    [] sp = "dquoted" -> cp >= 32 /\ cp \notin {34, 92, 127}
    [] sp = "squoted" -> cp >= 32 /\ cp \notin {39, 92, 127}
    [] sp = "escaped" -> cp \in {9, 10, 13, 0, 92, 127, 201, 228, 8364}
    [] sp = "symbolic" -> cp \in 9..13
Spellings == {"literal", "dec", "hex", "dquoted", "squoted", "escaped", "symbolic"}
\* (97, 110, 121: the letters of "any" and "none", the names some properties use for special values)
Pool == {0, 9, 10, 13, 32, 34, 39, 44, 48, 59, 88, 92, 97, 110, 121, 124, 127, 201, 228, 8364}
DelimiterValues == {Ch(sp, cp) : sp \in Spellings, cp \in Pool} \cup {Bad(k) : k \in {"empty", "twochars", "unknownname", "float", "unterminated"}}
S(p, v) == [prop |-> p, v |-> v]
ItemSettings == {S("item_delimiter", v) : v \in {w \in DelimiterValues : w.kind # "char" \/ CanSpell(w.sp, w.cp)}}
CharSettings ==
       {S("quote_character", Ch("literal", cp)) : cp \in {34, 39, 33, 126, 92, 44, 65}} \cup {S("quote_character", Ch("dec", 34))}
  \* values that are no single character of the documented set: nothing at all, two neighbours of the set, the set itself
  \cup {S(p, Bad(k)) : p \in {"quote_character", "escape_character", "decimal_separator"}, k \in {"empty", "neighbours"}}
  \cup {S("thousands_separator", Bad("neighbours"))}
  \cup {S("escape_character", Ch("literal", cp)) : cp \in {34, 92, 39, 44}}
  \cup {S("decimal_separator", Ch("literal", cp)) : cp \in {46, 44, 59}}
  \cup {S("thousands_separator", Ch("literal", cp)) : cp \in {46, 44, 59, 32}} \cup {S("thousands_separator", Bad("empty"))}
NameSettings ==
       {S("line_delimiter", Nm(n)) : n \in {"lf", "cr", "crlf", "any", "none", "newline"}}
  \cup {S("encoding", Nm(n)) : n \in {"known", "unknown"}}
  \cup {S("header", In(n)) : n \in {0, 1, 17, -1}} \cup {S("header", Bad("junk"))}
  \cup {S("sheet", In(n)) : n \in {1, 2, 0, -1}} \cup {S("sheet", Bad("junk"))}
  \cup {S("quoting", Nm(n)) : n \in {"all", "minimal", "some"}}
  \cup {S("skip_initial_space", Nm(n)) : n \in {"true", "false", "maybe"}}
  \cup {S("allowed_characters", Nm(n)) : n \in {"range", "letters", "malformed"}}
  \cup {S("no_such_property", Nm("x"))}
AllSettings == ItemSettings \cup CharSettings \cup NameSettings
\* pairs: the settings that can contradict each other
PairSettings == {S("item_delimiter", Ch("dec", cp)) : cp \in {9, 10, 13, 34, 39, 44, 59, 92, 97, 110}} \cup CharSettings
                \cup {S("line_delimiter", Nm(n)) : n \in {"lf", "cr", "crlf", "any"}}
=============================================================================
