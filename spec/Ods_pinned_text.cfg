SPECIFICATION Spec
CONSTANTS
  Chars <- SmallChars
  MaxRows = 1
  MaxCells = 1
  MaxLen = 2
  FeatureSets <- SomeFeatures
  Sheets <- OneSheet
  CollectAllText = FALSE
  ExpandRowRepeats = TRUE
  DescendsIntoRowContainers = TRUE
  ReadsCoveredCells = TRUE
INVARIANT TypeOK
INVARIANT ReadsTheLogicalTable
INVARIANT MissingSheetIsRefused
INVARIANT Emit
CHECK_DEADLOCK FALSE
