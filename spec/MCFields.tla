------------------------------ MODULE MCFields ------------------------------
EXTENDS Fields
WriterFormats == {"delimited", "fixed"}
AllFormats == {"delimited", "fixed", "excel", "ods"}
S(n) == <<n>>
\* none, exact 2, lower-only 2..., upper-only ...2, multi-item 1...1, 3...4, and two items that are open to either side with
\* a gap between them, ...1, 4... (the declaration as a whole has neither a lower nor an upper limit, yet it excludes 2 and 3)
Decls == { <<>>, << <<S(2), S(2)>> >>, << <<S(2), <<>>>> >>, << <<<<>>, S(2)>> >>, << <<S(1), S(1)>>, <<S(3), S(4)>> >>,
           << <<<<>>, S(1)>>, <<S(4), <<>>>> >> }
Widths == {1, 3}
\* thorough tier: also 0..., ...0 (only the empty cell), 1...3, exact 5, the two-item 2, 4...5 and three items
DeepDecls == Decls \cup { << <<S(0), <<>>>> >>, << <<<<>>, S(0)>> >>, << <<S(1), S(3)>> >>, << <<S(5), S(5)>> >>,
                          << <<S(2), S(2)>>, <<S(4), S(5)>> >>, << <<S(1), S(1)>>, <<S(3), S(3)>>, <<S(6), <<>>>> >> }
DeepWidths == {1, 2, 3, 5}
=============================================================================
