\* generated by tools/gen_cfgs.py; root module: MCSessionCalls
SPECIFICATION Spec
CONSTANTS
  MaxRows = 3
  NFields = 2
  Checks <- PChecks
  Header = 1
  Tables <- TheTables
  Modes <- AllModes
  Limits <- Limits3
  Apis = {"rows"}
  Ends = {"close"}
  Writers = TRUE
  MaxOps = 1
  Rereads = FALSE
  Parking = FALSE
  ResetOnOpen = TRUE
  ResetOnStart = TRUE
  RegisterOnReach = FALSE
  RegisterBeforeWrite = FALSE
  EndChecksOnError = FALSE
  LogCalls = TRUE
INVARIANT TypeOK
INVARIANT HistoryIndependence
INVARIANT CallsAsDocumented
INVARIANT ProtocolHolds
INVARIANT HeaderNeverValidated
INVARIANT Emit
PROPERTY ChecksOnlyChangeInsideASession
CHECK_DEADLOCK FALSE
