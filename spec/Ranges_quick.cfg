SPECIFICATION Spec
CONSTANTS
  Lim <- QLim
  Probe <- QProbe
  MaxItems = 2
  Spellings <- QSpell
INVARIANT TypeOK
INVARIANT WellFormedAccepted
INVARIANT MeansWhatItSays
INVARIANT Emit
CHECK_DEADLOCK FALSE
