SPECIFICATION Spec
CONSTANTS
  Lim <- GLim
  Probe <- GProbe
  MaxItems = 4
  Spellings <- GSpell
INVARIANT TypeOK
INVARIANT WellFormedAccepted
INVARIANT MeansWhatItSays
INVARIANT Emit
CHECK_DEADLOCK FALSE
