\* generated by tools/gen_cfgs.py; root module: MCSessionFault
SPECIFICATION Spec
CONSTANTS
  MaxRows = 3
  NFields = 2
  Checks <- UD
  Header = 1
  Tables <- TheTables
  Modes <- AllModes
  Limits <- NoLimit
  Apis = {"rows"}
  Ends = {"close"}
  Writers = FALSE
  MaxOps = 1
  Rereads = FALSE
  Parking = FALSE
  ResetOnOpen = TRUE
  ResetOnStart = TRUE
  RegisterOnReach = FALSE
  RegisterBeforeWrite = FALSE
  EndChecksOnError = TRUE
  LogCalls = FALSE
INVARIANT TypeOK
INVARIANT HistoryIndependence
PROPERTY ChecksOnlyChangeInsideASession
CHECK_DEADLOCK FALSE
