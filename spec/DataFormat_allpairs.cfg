SPECIFICATION Spec
CONSTANTS
  Formats <- AllFormats
  Settings <- AllSettings
  MaxSettings = 2
INVARIANT TypeOK
INVARIANT DefaultsKept
INVARIANT NeverContradictory
INVARIANT Emit
PROPERTY RefusalIsFinal
CHECK_DEADLOCK FALSE
