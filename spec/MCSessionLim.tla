---------------------------- MODULE MCSessionLim ----------------------------
(* one kind of bad row at every position (C07) *)
EXTENDS MCSessionBase
CONSTANT MaxRows
LimRows == {R(1,1), R(2,1), Bad1}
TheTables == {T(r) : r \in SeqsUpTo(LimRows, MaxRows)}
=============================================================================
