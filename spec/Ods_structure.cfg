SPECIFICATION Spec
CONSTANTS
  Chars <- SmallChars
  MaxRows = 3
  MaxCells = 2
  MaxLen = 1
  FeatureSets <- StructureFeatures
  Sheets <- OneSheet
  CollectAllText = TRUE
  ExpandRowRepeats = TRUE
  DescendsIntoRowContainers = TRUE
  ReadsCoveredCells = TRUE
INVARIANT TypeOK
INVARIANT ReadsTheLogicalTable
INVARIANT MissingSheetIsRefused
INVARIANT Emit
CHECK_DEADLOCK FALSE
