\* generated by tools/gen_cfgs.py; root module: MCSessionAll
SPECIFICATION Spec
CONSTANTS
  MaxRows = 3
  NFields = 2
  Checks <- UD
  Header = 2
  Tables <- TheTables
  Modes <- AllModes
  Limits <- NoLimit
  Apis = {}
  Ends = {"close"}
  Writers = TRUE
  MaxOps = 1
  Rereads = FALSE
  Parking = FALSE
  ResetOnOpen = TRUE
  ResetOnStart = TRUE
  RegisterOnReach = FALSE
  RegisterBeforeWrite = FALSE
  EndChecksOnError = FALSE
  LogCalls = FALSE
INVARIANT TypeOK
INVARIANT HistoryIndependence
INVARIANT WriterEmitsAccepted
INVARIANT OutputRevalidates
INVARIANT Emit
PROPERTY ChecksOnlyChangeInsideASession
CHECK_DEADLOCK FALSE
