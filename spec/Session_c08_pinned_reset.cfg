\* generated by tools/gen_cfgs.py; root module: MCSessionHist
SPECIFICATION Spec
CONSTANTS
  MaxRows = 0
  NFields = 2
  Checks <- HChecks
  Header = 0
  Tables <- TheTables
  Modes <- AllModes
  Limits <- HLimits
  Apis = {"rows", "validate", "reader"}
  Ends = {"close", "forget", "abandon"}
  Writers = TRUE
  MaxOps = 2
  Rereads = FALSE
  Parking = FALSE
  ResetOnOpen = FALSE
  ResetOnStart = TRUE
  RegisterOnReach = FALSE
  RegisterBeforeWrite = FALSE
  EndChecksOnError = FALSE
  LogCalls = FALSE
INVARIANT TypeOK
INVARIANT HistoryIndependence
PROPERTY ChecksOnlyChangeInsideASession
CHECK_DEADLOCK FALSE
