--------------------------------- MODULE Sql ---------------------------------
(***************************************************************************)
(* Generated SQL DDL (property C19): cutplace/fields.py (sql_ansi_type of  *)
(* each field format), cutplace/sql.py:748-767, 968-987, 1294-1307 (the    *)
(* dialects' sql_type ladders) and 1394-1439 (SqlFactory.sql_fields,       *)
(* create_table_statement).                                                *)
(*                                                                         *)
(* Integer limits around the type boundaries do not fit TLC's 32-bit       *)
(* integers; a number is symbolic: [neg, k, d] stands for +-(2^k + d) with *)
(* d in -2..2 and k >= 7, and [neg, k |-> 0, d |-> n] for the small number *)
(* +-n (n < 100).  Comparisons are done on the symbols.                    *)
(*                                                                         *)
(*   AnsiType      field.sql_ansi_type(): for Integer ("int", limit) with  *)
(*                 limit = the larger sign-adjusted limit                  *)
(*   DialectType   the dialect's ladder                                    *)
(* Deviation switch TinyintNeedsNonNegative: TRUE -- Transact-SQL tinyint  *)
(* (0..255) is chosen only for ranges without negative numbers; FALSE --   *)
(* pinned code, the ANSI tuple carries no sign (D11, known finding).       *)
(***************************************************************************)
EXTENDS Integers, Sequences, FiniteSets, TLC, Json

CONSTANTS Dialects,     \* subset of {"ansi", "pl", "tsql", "db2"}
          Numbers,      \* symbolic numbers used as range limits
          OtherFields,  \* non-Integer fields tried in field lists
          MaxFields,
          TinyintNeedsNonNegative

(* ------------------------------ symbolic numbers ------------------------------ *)
IsZero(a) == a.k = 0 /\ a.d = 0
MagLess(a, b) == a.k < b.k \/ (a.k = b.k /\ a.d < b.d)         \* |a| < |b|
MagLeq(a, b) == a.k < b.k \/ (a.k = b.k /\ a.d <= b.d)
Neg(a) == a.neg /\ ~IsZero(a)
Leq(a, b) == IF Neg(a) THEN (IF Neg(b) THEN MagLeq(b, a) ELSE TRUE) ELSE (IF Neg(b) THEN FALSE ELSE MagLeq(a, b))
\* the magnitude m satisfies m <= 2^j - 1
MagFits(m, j) == m.k < j \/ (m.k = j /\ m.d <= -1)
\* fields.py:495-506, sign_adjusted_limit: n for n >= 0, -(n + 1) = |n| - 1 for negative n (as a magnitude)
Adjusted(a) == IF Neg(a) THEN [neg |-> FALSE, k |-> a.k, d |-> a.d - 1] ELSE [neg |-> FALSE, k |-> a.k, d |-> a.d]
MagMax(a, b) == IF MagLess(a, b) THEN b ELSE a

(* ------------------------------ the machine ------------------------------ *)
VARIABLES dialect, fields,    \* the case: a list of fields
          idx, columns        \* columns produced so far
vars == <<dialect, fields, idx, columns>>

\* open: "none" -- the range lo...hi; "lo" -- ...hi (no lower limit); "hi" -- lo... (no upper limit)
IntFields == {[t |-> "Integer", lo |-> a, hi |-> b, open |-> "none", empty |-> e, name |-> "amount"] :
                a \in Numbers, b \in Numbers, e \in BOOLEAN}
OpenIntFields == {[t |-> "Integer", lo |-> a, hi |-> a, open |-> o, empty |-> e, name |-> "amount"] :
                    a \in Numbers, o \in {"lo", "hi"}, e \in BOOLEAN}
Lists == {<<f>> : f \in {g \in IntFields : Leq(g.lo, g.hi)} \cup OpenIntFields}
    \cup UNION {{l \in [1..n -> OtherFields] : \A i, j \in 1..n : i # j => l[i].name # l[j].name} : n \in 1..MaxFields}
Init == dialect \in Dialects /\ fields \in Lists /\ idx = 0 /\ columns = <<>>

Keyword(d, name) == CASE name = "select" -> TRUE
                      [] name = "order" -> TRUE
                      [] name = "comment" -> d \in {"pl", "db2"}
                      [] name = "window" -> d = "ansi"
                      [] name = "limit" -> d = "pl"
                      [] name = "key" -> d \in {"ansi", "tsql", "db2"}
                      [] name = "percent" -> d = "tsql"
                      [] name = "audit" -> d = "db2"
                      [] OTHER -> FALSE
\* the dialect ladders for ("int", limit)
IntColumn(d, f) ==
  LET m == MagMax(Adjusted(f.lo), Adjusted(f.hi)) IN
  \* without a lower or an upper limit there is nothing to derive a type from: the dialect's default integer type
  IF f.open # "none" THEN (IF d = "db2" THEN "integer" ELSE "int") ELSE
  CASE d = "ansi" -> "int"
    [] d = "pl" -> IF MagFits(m, 31) THEN "int" ELSE "number"
    [] d = "tsql" -> IF MagFits(m, 8) /\ (TinyintNeedsNonNegative => ~Neg(f.lo)) THEN "tinyint"
                     ELSE IF MagFits(m, 15) THEN "smallint" ELSE IF MagFits(m, 31) THEN "int"
                     ELSE IF MagFits(m, 63) THEN "bigint" ELSE "decimal"
    [] d = "db2" -> IF MagFits(m, 15) THEN "smallint" ELSE IF MagFits(m, 31) THEN "integer"
                    ELSE IF MagFits(m, 63) THEN "bigint" ELSE "decimal"
\* decimal digits of a magnitude: 2^k + d with |d| <= 2 has as many digits as 2^k
Digits(m) == CASE m.k = 0 -> (IF m.d < 10 THEN 1 ELSE 2) [] m.k \in {7, 8} -> 3 [] m.k \in {15, 16} -> 5
               [] m.k \in {31, 32} -> 10 [] m.k = 63 -> 19
\* an integer type carries no size; a decimal / number column chosen for an Integer field declares as many digits as the
\* larger limit has (sql.py: the dialects' ladders), no fractional digits
IntSize(d, f) == IF IntColumn(d, f) \notin {"decimal", "number"} THEN <<>>
                 ELSE LET p == Digits(MagMax(f.lo, f.hi)) IN IF d = "db2" THEN <<p>> ELSE <<p, 0>>
MaxPrecision(d) == IF d = "db2" THEN 31 ELSE 38
TypeName(d, f) ==
  CASE f.t = "Integer" -> IntColumn(d, f)
    [] f.t = "Decimal" -> IF d = "pl" THEN "number" ELSE "decimal"
    [] f.t = "DateTime" -> "date"
    [] OTHER -> IF d = "pl" THEN "varchar2" ELSE "varchar"
\* Decimal fields: a rule is a pair of limits, each written with b digits before and a digits after the decimal point
\* (ranges.py:565-571, 641-642: the running maxima over all limits); a column must carry the total number of digits and
\* the number of fractional digits that every value of the rule can be written with
MaxOf(S) == CHOOSE m \in S : \A o \in S : m >= o
FracDigits(f) == MaxOf({f.limits[i][2] : i \in 1..Len(f.limits)})
TotalDigits(f) == MaxOf({f.limits[i][1] : i \in 1..Len(f.limits)}) + FracDigits(f)
\* sql.py:1394-1439, one field
AddColumn ==
  /\ idx < Len(fields)
  /\ LET f == fields[idx + 1] IN
     columns' = Append(columns, [name |-> f.name, quoted |-> Keyword(dialect, f.name), type |-> TypeName(dialect, f),
                                 notnull |-> ~f.empty,
                                 size |-> IF f.t = "Decimal" THEN <<TotalDigits(f), FracDigits(f)>> ELSE IF f.t = "Integer" THEN IntSize(dialect, f) ELSE IF f.t = "DateTime" THEN <<>>
                                          ELSE f.len])
  /\ idx' = idx + 1 /\ UNCHANGED <<dialect, fields>>
Next == AddColumn
Spec == Init /\ [][Next]_vars

(* ------------------------------ C19 ------------------------------ *)
\* can a column of this type hold the value?
Holds(d, type, size, v) ==
  CASE type = "tinyint" -> ~Neg(v) /\ MagFits(v, 8)
    [] type = "smallint" -> IF Neg(v) THEN MagFits([v EXCEPT !.d = @ - 1], 15) ELSE MagFits(v, 15)
    [] type \in {"int", "integer"} -> IF d \in {"ansi", "pl"} THEN TRUE           \* implementation-defined: never judged too small
                                      ELSE (IF Neg(v) THEN MagFits([v EXCEPT !.d = @ - 1], 31) ELSE MagFits(v, 31))
    [] type = "bigint" -> IF Neg(v) THEN MagFits([v EXCEPT !.d = @ - 1], 63) ELSE MagFits(v, 63)
    [] type \in {"decimal", "number"} -> /\ Len(size) > 0 /\ size[1] <= MaxPrecision(d)     \* a precision the dialect has
                                         /\ size[1] - (IF Len(size) > 1 THEN size[2] ELSE 0) >= Digits(v)
ColumnHoldsBothLimits ==
  \A i \in 1..Len(columns) : (fields[i].t = "Integer" /\ fields[i].open = "none") =>              \* (bounded ranges)
     /\ Holds(dialect, columns[i].type, columns[i].size, fields[i].lo)
     /\ Holds(dialect, columns[i].type, columns[i].size, fields[i].hi)
     /\ (columns[i].type \notin {"decimal", "number"} => columns[i].size = <<>>)
OneColumnPerFieldInOrder == \A i \in 1..Len(columns) : columns[i].name = fields[i].name /\ columns[i].notnull = ~fields[i].empty
TypeOK == idx \in 0..Len(fields)
Emit == idx = Len(fields) => PrintT(<<"VEC", ToJson([dialect |-> dialect, fields |-> fields, columns |-> columns])>>)
=============================================================================
