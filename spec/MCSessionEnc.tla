---------------------------- MODULE MCSessionEnc ----------------------------
(* writers whose target cannot represent every character (C14): rows the CID accepts but the container refuses *)
EXTENDS MCSessionBase
CONSTANT MaxRows
Enc(a, b) == [w |-> "enc", c |-> <<"ok", "ok">>, v |-> <<a, b>>]
EncBad == [w |-> "enc", c |-> <<"rej", "ok">>, v |-> <<1, 1>>]
RowKinds == {R(1,1), R(2,2), Bad1, Short, Enc(1,1), Enc(2,1), EncBad}
TheTables == {T(r) : r \in SeqsUpTo(RowKinds, MaxRows)}
=============================================================================
