SPECIFICATION Spec
CONSTANTS
  Chars <- AllChars
  MaxRows = 1
  MaxCells = 1
  MaxLen = 3
  FeatureSets <- AllFeatures
  Sheets <- OneSheet
  CollectAllText = TRUE
  ExpandRowRepeats = TRUE
  DescendsIntoRowContainers = TRUE
  ReadsCoveredCells = TRUE
INVARIANT TypeOK
INVARIANT ReadsTheLogicalTable
INVARIANT MissingSheetIsRefused
INVARIANT Emit
CHECK_DEADLOCK FALSE
