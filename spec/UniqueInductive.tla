-------------------------- MODULE UniqueInductive --------------------------
(***************************************************************************)
(* Unbounded companion of Session.tla for the bookkeeping of one IsUnique  *)
(* check (C05, C08): for ANY number of rows and ANY number of data sets    *)
(* read with one CID, the keys the check has registered are exactly the    *)
(* keys of the rows accepted so far in the current data set, so that a row *)
(* is rejected iff an earlier accepted row of the same data set has its    *)
(* key.  TLC decides this for tables of up to 5 rows; here the statement   *)
(* is an inductive invariant discharged by Apalache (Init => IndInv, and   *)
(* IndInv /\ Next => IndInv'), i.e. for unbounded behaviours over a finite *)
(* key alphabet.  Rows rejected for other reasons (field errors, wrong     *)
(* item count) never reach the check; abandoned or never-closed readers    *)
(* are covered because a new reader may be opened in any state.            *)
(***************************************************************************)
EXTENDS Integers, FiniteSets

CONSTANT
  \* @type: Set(Int);
  Keys

VARIABLES
  \* @type: Set(Int);
  registered,     \* IsUniqueCheck._row_key_to_location_map (its keys): lives in the CID
  \* @type: Set(Int);
  acceptedKeys,   \* keys of the rows accepted so far in the data set being read
  \* @type: Bool;
  open,           \* a reader or writer exists
  \* @type: Bool;
  lastRejectedAsDuplicate,
  \* @type: Bool;
  lastHadTwin     \* an earlier accepted row of this data set had the same key

\* Reader.__init__ / Writer.__init__: the checks are reset (ResetOnOpen); possible in every state
Open == /\ registered' = {} /\ acceptedKeys' = {} /\ open' = TRUE
        /\ lastRejectedAsDuplicate' = FALSE /\ lastHadTwin' = FALSE
\* a row that reaches the check (all cells accepted)
Row(k) == /\ open
          /\ lastHadTwin' = (k \in acceptedKeys)
          /\ IF k \in registered
             THEN /\ lastRejectedAsDuplicate' = TRUE /\ UNCHANGED <<registered, acceptedKeys>>
             ELSE /\ lastRejectedAsDuplicate' = FALSE
                  /\ registered' = registered \union {k} /\ acceptedKeys' = acceptedKeys \union {k}
          /\ UNCHANGED open
\* a row rejected before the checks (field error, wrong item count): nothing changes
Skipped == /\ open /\ lastRejectedAsDuplicate' = FALSE /\ lastHadTwin' = FALSE /\ UNCHANGED <<registered, acceptedKeys, open>>
Next == Open \/ Skipped \/ \E k \in Keys : Row(k)
Init == registered = {} /\ acceptedKeys = {} /\ open = FALSE /\ lastRejectedAsDuplicate = FALSE /\ lastHadTwin = FALSE

\* C05: rejected as duplicate iff an earlier ACCEPTED row of the same data set has the key
Safety == lastRejectedAsDuplicate = lastHadTwin
IndInv == /\ registered = acceptedKeys
          /\ registered \subseteq Keys
          /\ lastRejectedAsDuplicate = lastHadTwin
          /\ (~open => registered = {})
\* every state satisfying IndInv, in the assignment form Apalache needs for an initial predicate
IndInit == /\ registered \in SUBSET Keys /\ acceptedKeys = registered
           /\ open \in BOOLEAN /\ lastRejectedAsDuplicate \in BOOLEAN /\ lastHadTwin = lastRejectedAsDuplicate
           /\ (~open => registered = {})
=============================================================================
