---------------------------- MODULE MCSessionAll ----------------------------
(* every table of up to MaxRows rows over the full row alphabet (C04, C06, C14) *)
EXTENDS MCSessionBase
CONSTANT MaxRows
RowKinds == {R(1,1), R(1,2), R(2,1), R(2,2), Bad1, Bad2, BadBoth, Short, Long}
TheTables == {T(r) : r \in SeqsUpTo(RowKinds, MaxRows)}
=============================================================================
