------------------------------ MODULE Location ------------------------------
(***************************************************************************)
(* cutplace/errors.py:26-190, class Location: the position every reader,   *)
(* writer and CID loader keeps while it works, and that every error        *)
(* carries a copy of (property C04: "errors name the culprit" rests on this *)
(* arithmetic; no listed property is about Location alone).                *)
(*                                                                         *)
(* State: line, column, cell, sheet (all counted from 0) and three flags   *)
(* fixed at creation that say which coordinates exist.  One action per     *)
(* method:                                                                 *)
(*   AdvanceColumn(n)  errors.py:96-100   (needs has_column)               *)
(*   AdvanceCell(n)    errors.py:102-106  (needs has_cell)                 *)
(*   SetCell(k)        errors.py:108-112  (needs has_cell)                 *)
(*   AdvanceLine(n)    errors.py:114-121  column and cell start again      *)
(*   AdvanceSheet      errors.py:123-128  line, column and cell start again *)
(*   Copy              errors.py:91-94    what an error keeps              *)
(* Denotation: Render, the documented text form (docstring of __init__):   *)
(*   data.txt (1;1)   data.csv (R1C1)   data.ods (Sheet1!R1C1)   ...;1)    *)
(***************************************************************************)
EXTENDS Integers, Sequences, TLC, Json

CONSTANTS MaxSteps, Amounts, CellTargets

VARIABLES flags,    \* [column, cell, sheet : BOOLEAN]
          pos,      \* [line, column, cell, sheet : Nat]
          copies,   \* positions kept by Copy, in order
          hist      \* the steps taken: [op, arg, after] (for the replay)
vars == <<flags, pos, copies, hist>>

Origin == [line |-> 0, column |-> 0, cell |-> 0, sheet |-> 0]
Init == /\ flags \in [column : BOOLEAN, cell : BOOLEAN, sheet : BOOLEAN]
        /\ pos = Origin /\ copies = <<>> /\ hist = <<>>

Step(op, arg, new) == /\ Len(hist) < MaxSteps
                      /\ pos' = new
                      /\ hist' = Append(hist, [op |-> op, arg |-> arg, after |-> new])
                      /\ UNCHANGED flags
AdvanceColumn(n) == flags.column /\ Step("advance_column", n, [pos EXCEPT !.column = @ + n]) /\ UNCHANGED copies
AdvanceCell(n) == flags.cell /\ Step("advance_cell", n, [pos EXCEPT !.cell = @ + n]) /\ UNCHANGED copies
SetCell(k) == flags.cell /\ Step("set_cell", k, [pos EXCEPT !.cell = k]) /\ UNCHANGED copies
AdvanceLine(n) == Step("advance_line", n, [pos EXCEPT !.line = @ + n, !.column = 0, !.cell = 0]) /\ UNCHANGED copies
AdvanceSheet == Step("advance_sheet", 0, [pos EXCEPT !.sheet = @ + 1, !.line = 0, !.column = 0, !.cell = 0]) /\ UNCHANGED copies
Copy == Step("copy", 0, pos) /\ copies' = Append(copies, pos)
Next == \/ \E n \in Amounts : AdvanceColumn(n) \/ AdvanceCell(n) \/ AdvanceLine(n)
        \/ \E k \in CellTargets : SetCell(k)
        \/ AdvanceSheet \/ Copy
Spec == Init /\ [][Next]_vars

(* ------------------------------ the text form ------------------------------ *)
\* pieces of the text in parentheses, as a sequence of <<label, number>>: the harness joins them the documented way
Render(f, p) ==
  (IF f.cell THEN (IF f.sheet THEN << <<"Sheet", p.sheet + 1>> >> ELSE <<>>) \o << <<"R", p.line + 1>>, <<"C", p.cell + 1>> >>
   ELSE << <<"", p.line + 1>> >>)
  \o (IF f.column THEN << <<";", p.column + 1>> >> ELSE <<>>)

(* ------------------------------ what holds ------------------------------ *)
TypeOK == pos.line >= 0 /\ pos.column >= 0 /\ pos.cell >= 0 /\ pos.sheet >= 0
\* a new line starts in front of its first cell and character; a new sheet in front of its first line
LineStartsAfresh == [][pos'.line # pos.line => (pos'.column = 0 /\ pos'.cell = 0)]_vars
SheetStartsAfresh == [][pos'.sheet # pos.sheet => pos' = [Origin EXCEPT !.sheet = pos.sheet + 1]]_vars
\* what an error has kept does not move when the reader goes on
CopiesStay == [][\A i \in 1..Len(copies) : copies'[i] = copies[i]]_vars
\* nothing moves backwards except by the two resets and set_cell
OnlyForward == [][pos'.sheet >= pos.sheet /\ (pos'.sheet = pos.sheet => pos'.line >= pos.line)]_vars
Emit == Len(hist) = MaxSteps =>
   PrintT(<<"VEC", ToJson([flags |-> flags, hist |-> [i \in 1..Len(hist) |->
              [op |-> hist[i].op, arg |-> hist[i].arg, after |-> hist[i].after, text |-> Render(flags, hist[i].after)]],
            copies |-> [i \in 1..Len(copies) |-> Render(flags, copies[i])]])>>)
=============================================================================
