------------------------------- MODULE CidLoad -------------------------------
(***************************************************************************)
(* Loading a CID (property C09): the row dispatch of Cid.read,             *)
(* cutplace/interface.py:244-287, with add_data_format_row (208-242),      *)
(* add_field_format_row (314-461) and add_check_row (476-525).             *)
(*                                                                         *)
(* A CID is a sequence of abstract rows.  What a single cell says is       *)
(* abstracted into a tag: "none" (the cell contents are fine) or the name  *)
(* of a defect from the catalogue; the harness owns the concrete cells     *)
(* (appendix C of DESIGN.md).  Structural defects -- format missing, not   *)
(* first, given twice; duplicate names; checks before fields; no fields -- *)
(* are not tags but properties of the row sequence, produced by Mutate.    *)
(*                                                                         *)
(*   ReadRow   one pass through the loop of Cid.read                       *)
(*   Finish    the three tests after the loop (format present, data format *)
(*             consistent, at least one field)                             *)
(* Denotation: Sound(rows), the sentence of C09; FirstOffending(rows).     *)
(***************************************************************************)
EXTENDS Integers, Sequences, FiniteSets, TLC, Json

CONSTANTS Formats,     \* formats of the base CIDs
          MaxFields, MaxChecks,
          FTags, CTags, \* catalogue entries that live in one cell of an F / C row
          Decorations,  \* set of subsets of {"comments", "blanks"} applied to every case
          ExamplesJudgedWhenComplete   \* TRUE (shipped): the examples are judged again when the CID is complete, under the data
                                       \* format as it then is; FALSE: pinned code, only when the field is declared (D65)

Row(k, tag, id, val) == [k |-> k, tag |-> tag, id |-> id, val |-> val]
\* D rows: tag = "format" | "good" | "inapplicable" | "unknown" | "emptyname" | "badvalue" | "contra" | "narrow"; val = the format
\* for "format". "good" and "narrow" set the same property (the allowed characters): under "good" every example of the base
\* fields is a value of its field, under "narrow" none is; the later row counts.
DFormat(f) == Row("D", "format", 0, f)
DRow(tag) == Row("D", tag, 0, "")
FRow(id, tag) == Row("F", tag, id, "")
CRow(id, tag) == Row("C", tag, id, "")
Comment == Row("comment", "none", 0, "")
Blank == Row("blank", "none", 0, "")
Junk == Row("junk", "none", 0, "")

Base(f, nf, nc) == <<DFormat(f), DRow("good")>> \o [i \in 1..nf |-> FRow(i, "none")] \o [i \in 1..nc |-> CRow(i, "none")]

(* ------------------------------ mutations: exactly one defect ------------------------------ *)
Min(S) == CHOOSE m \in S : \A o \in S : m <= o
InsertAt(s, pos, x) == SubSeq(s, 1, pos - 1) \o <<x>> \o SubSeq(s, pos, Len(s))
RemoveAt(s, pos) == SubSeq(s, 1, pos - 1) \o SubSeq(s, pos + 1, Len(s))
Idx(s, k) == {i \in 1..Len(s) : s[i].k = k}
FixedOnly(t) == t \in {"fixed:nolength", "fixed:range", "fixed:zero"}
Mutants(f, nf, nc) ==
  LET b == Base(f, nf, nc) IN
  {<<"none", b>>}
  \cup {<<"tagF", [b EXCEPT ![i].tag = t]>> : i \in Idx(b, "F"), t \in {u \in FTags : FixedOnly(u) => f = "fixed"}}
  \cup {<<"tagC", [b EXCEPT ![i].tag = t]>> : i \in Idx(b, "C"), t \in CTags}
  \cup {<<"dupName", [b EXCEPT ![i].id = 1]>> : i \in {j \in Idx(b, "F") : b[j].id > 1}}
  \cup {<<"dupDesc", [b EXCEPT ![i].id = 1]>> : i \in {j \in Idx(b, "C") : b[j].id > 1}}
  \cup {<<"dProp", InsertAt(b, 3, DRow(t))>> : t \in {"inapplicable", "unknown", "emptyname", "badvalue"}}
  \cup (IF f \in {"delimited", "fixed"} THEN {<<"contra", InsertAt(b, 3, DRow("contra"))>>} ELSE {})
  \cup {<<"fmtTwice", InsertAt(b, 3, DFormat(f))>>, <<"fmtUnknown", [b EXCEPT ![1].val = "unknownfmt"]>>,
        <<"fmtNotFirst", InsertAt(b, 1, DRow("good"))>>, <<"noFormat", RemoveAt(RemoveAt(b, 1), 1)>>,
        <<"fieldBeforeFormat", InsertAt(b, 1, FRow(9, "none"))>>,
        <<"noFields", SelectSeq(b, LAMBDA r : r.k # "F")>>}
  \cup (IF nc >= 1 THEN {<<"checkBeforeFields", InsertAt(b, 3, CRow(9, "none"))>>} ELSE {})
  \* a property row in front of the fields, or behind everything, under which the examples are no values of their fields
  \cup {<<"narrow", InsertAt(b, 3, DRow("narrow"))>>, <<"narrowLate", InsertAt(b, Len(b) + 1, DRow("narrow"))>>}
  \cup {<<"junk", InsertAt(b, p, Junk)>> : p \in 1..(Len(b) + 1)}
\* meaning-preserving rewrites that exist as rows (marker case, surrounding blanks, trailing cells are the harness's)
Decorate(rows, deco) ==
  LET cut == IF Len(rows) < 2 THEN Len(rows) ELSE 2
      withComments == IF "comments" \in deco THEN <<Comment>> \o SubSeq(rows, 1, cut) \o <<Comment>> \o SubSeq(rows, cut + 1, Len(rows)) ELSE rows
      \* a property row may also follow the fields and checks (only Format has to come first)
      late == IF "late" \in deco /\ Len(withComments) >= 3 /\ \E i \in 1..Len(withComments) : withComments[i].tag = "good"
              THEN LET g == Min({i \in 1..Len(withComments) : withComments[i].tag = "good"}) IN
                   IF \E i \in 1..(g - 1) : withComments[i].tag = "format"
                   THEN RemoveAt(withComments, g) \o <<withComments[g]>> ELSE withComments
              ELSE withComments
  IN IF "blanks" \in deco THEN <<Blank>> \o late \o <<Blank>> ELSE late

(* ------------------------------ the machine ------------------------------ *)
VARIABLES label, rows,       \* the case
          pos,               \* rows consumed
          fmt,               \* "" until the format row
          contra,            \* a setting that contradicts another one has been seen
          fields, checks,    \* ids in declaration order
          status,            \* "loading" | "accepted" | "rejected"
          errRow,            \* row of the rejection, 0 = reported after the last row
          narrowNow,         \* the data format as it is now admits none of the examples
          firstField         \* row of the first field declared, 0 = none yet
vars == <<label, rows, pos, fmt, contra, fields, checks, status, errRow, narrowNow, firstField>>

Cases == UNION {{<<m[1], Decorate(m[2], d)>> : m \in Mutants(f, nf, nc), d \in Decorations} :
                  f \in Formats, nf \in 1..MaxFields, nc \in 0..MaxChecks}
Init == /\ \E c \in Cases : label = c[1] /\ rows = c[2]
        /\ pos = 0 /\ fmt = "" /\ contra = FALSE /\ fields = <<>> /\ checks = <<>> /\ status = "loading" /\ errRow = 0
        /\ narrowNow = FALSE /\ firstField = 0

Has(s, x) == \E i \in 1..Len(s) : s[i] = x
RejectHere == status' = "rejected" /\ errRow' = pos + 1 /\ UNCHANGED <<fmt, contra, fields, checks, narrowNow, firstField>>
\* interface.py:267-282
ReadRow ==
  /\ status = "loading" /\ pos < Len(rows)
  /\ LET r == rows[pos + 1] IN
     CASE r.k = "D" ->
            IF r.tag = "format"
            THEN IF fmt # "" \/ r.val = "unknownfmt" THEN RejectHere
                 ELSE fmt' = r.val /\ UNCHANGED <<contra, fields, checks, status, errRow, narrowNow, firstField>>
            ELSE IF fmt = "" \/ r.tag \in {"inapplicable", "unknown", "emptyname", "badvalue"} THEN RejectHere
                 ELSE /\ contra' = (contra \/ r.tag = "contra")
                      /\ narrowNow' = (IF r.tag = "narrow" THEN TRUE ELSE IF r.tag = "good" THEN FALSE ELSE narrowNow)
                      /\ UNCHANGED <<fmt, fields, checks, status, errRow, firstField>>
       [] r.k = "F" ->
            \* (interface.py, add_field_format_row: the example is a value of the field as it is declared)
            IF fmt = "" \/ r.tag # "none" \/ Has(fields, r.id) \/ narrowNow THEN RejectHere
            ELSE /\ fields' = Append(fields, r.id) /\ firstField' = (IF firstField = 0 THEN pos + 1 ELSE firstField)
                 /\ UNCHANGED <<fmt, contra, checks, status, errRow, narrowNow>>
       [] r.k = "C" ->
            IF fields = <<>> \/ r.tag # "none" \/ Has(checks, r.id) THEN RejectHere
            ELSE checks' = Append(checks, r.id) /\ UNCHANGED <<fmt, contra, fields, status, errRow, narrowNow, firstField>>
       [] r.k \in {"comment", "blank"} -> UNCHANGED <<fmt, contra, fields, checks, status, errRow, narrowNow, firstField>>
       [] r.k = "junk" -> RejectHere
  /\ pos' = pos + 1 /\ UNCHANGED <<label, rows>>
\* interface.py:283-287
Finish ==
  /\ status = "loading" /\ pos = Len(rows)
  /\ LET incomplete == fmt = "" \/ contra \/ fields = <<>>
         \* the completed fields are asked for their examples once more, in declaration order: the first one is named
         staleExample == ExamplesJudgedWhenComplete /\ ~incomplete /\ narrowNow
     IN /\ status' = IF incomplete \/ staleExample THEN "rejected" ELSE "accepted"
        /\ errRow' = IF staleExample THEN firstField ELSE errRow
  /\ UNCHANGED <<label, rows, pos, fmt, contra, fields, checks, narrowNow, firstField>>
Next == ReadRow \/ Finish
Spec == Init /\ [][Next]_vars

(* ------------------------------ C09, from the property text ------------------------------ *)
Ds(rs) == Idx(rs, "D")
Fs(rs) == Idx(rs, "F")
Cs(rs) == Idx(rs, "C")
Max(S) == CHOOSE m \in S : \A o \in S : m >= o
\* is the data format, after the rows in front of row n, one under which the examples are no values?
NarrowBefore(rs, n) == LET s == {i \in Ds(rs) : i < n /\ rs[i].tag \in {"good", "narrow"}} IN s # {} /\ rs[Max(s)].tag = "narrow"
Sound(rs) ==
  /\ Ds(rs) # {} /\ rs[Min(Ds(rs))].tag = "format" /\ rs[Min(Ds(rs))].val # "unknownfmt"     \* first data-format row sets a known format
  /\ Cardinality({i \in Ds(rs) : rs[i].tag = "format"}) = 1                                  \* exactly once
  /\ \A i \in Ds(rs) : rs[i].tag \in {"format", "good", "narrow"}                             \* applicable, well-formed, not contradictory
  /\ \A i \in Fs(rs) : ~NarrowBefore(rs, i)                      \* "an example its own field accepts": as the field is declared ...
  /\ ~NarrowBefore(rs, Len(rs) + 1)                              \* ... and as the completed CID has it
  /\ Fs(rs) # {} /\ \A i \in Fs(rs) : i > Min(Ds(rs)) /\ rs[i].tag = "none"                   \* fields after it, each well-formed
  /\ \A i, j \in Fs(rs) : i # j => rs[i].id # rs[j].id                                        \* unique names
  /\ \A i \in Cs(rs) : rs[i].tag = "none" /\ \E j \in Fs(rs) : j < i                          \* checks follow the fields
  /\ \A i, j \in Cs(rs) : i # j => rs[i].id # rs[j].id                                        \* unique descriptions
  /\ Idx(rs, "junk") = {}
\* the first row at which the CID can no longer be completed to a sound one, 0 if only the end tells
FirstOffending(rs) ==
  LET bad == {n \in 1..Len(rs) : LET p == SubSeq(rs, 1, n) IN
                                    \/ rs[n].k = "junk"
                                    \/ rs[n].k = "D" /\ (IF rs[n].tag = "format"
                                                         THEN (\E i \in 1..(n - 1) : rs[i].k = "D") \/ rs[n].val = "unknownfmt"
                                                         ELSE rs[n].tag \in {"inapplicable", "unknown", "emptyname", "badvalue"}
                                                              \/ ~\E i \in 1..(n - 1) : rs[i].k = "D" /\ rs[i].tag = "format")
                                    \/ rs[n].k = "F" /\ (NarrowBefore(rs, n) \/ (n = Min(Fs(rs)) /\ NarrowBefore(rs, Len(rs) + 1)))
                                    \/ rs[n].k = "F" /\ (rs[n].tag # "none" \/ Ds(p) = {} \/ \E i \in 1..(n - 1) : rs[i].k = "F" /\ rs[i].id = rs[n].id)
                                    \/ rs[n].k = "C" /\ (rs[n].tag # "none" \/ Fs(p) = {} \/ \E i \in 1..(n - 1) : rs[i].k = "C" /\ rs[i].id = rs[n].id)}
  IN IF bad = {} THEN 0 ELSE Min(bad)
AcceptedIffSound == status # "loading" => ((status = "accepted") <=> Sound(rows))
RejectionNamesTheRow == status = "rejected" => errRow = FirstOffending(rows)
\* accepted: the declared fields and checks, in order
RECURSIVE IdsOf(_, _)
IdsOf(rs, k) == IF rs = <<>> THEN <<>> ELSE (IF Head(rs).k = k THEN <<Head(rs).id>> ELSE <<>>) \o IdsOf(Tail(rs), k)
KeepsOrder == status = "accepted" => fields = IdsOf(rows, "F") /\ checks = IdsOf(rows, "C")
TypeOK == status \in {"loading", "accepted", "rejected"} /\ pos \in 0..Len(rows)
Emit == status # "loading" =>
   PrintT(<<"VEC", ToJson([label |-> label, rows |-> rows, status |-> status, errRow |-> errRow, fmt |-> fmt,
                            fields |-> fields, checks |-> checks])>>)
=============================================================================
