SPECIFICATION Spec
CONSTANTS
  WidthLists <- MutWidths
  Delims <- AllDelims
  MaxLen = 0
  MaxRecords = 3
  Mutants = FALSE
INVARIANT TypeOK
INVARIANT LosslessAndAligned
INVARIANT ConsumedSoFar
INVARIANT BuiltIsAccepted
INVARIANT Emit
CHECK_DEADLOCK FALSE
