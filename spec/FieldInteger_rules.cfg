SPECIFICATION Spec
CONSTANTS
  LengthDecls <- Lengths
  Rules <- SomeRules
  Probes <- FewValues
INVARIANT TypeOK
INVARIANT IntegerMeansWhatItSays
INVARIANT Emit
CHECK_DEADLOCK FALSE
