------------------------------ MODULE DataFormat ------------------------------
(***************************************************************************)
(* Data-format properties (property C11): cutplace/data.py:99-140          *)
(* (which attributes a format has), 291-385 (DataFormat.set_property) and  *)
(* 495-523 (DataFormat.validate).                                          *)
(*                                                                         *)
(*   Create        DataFormat(format)                                      *)
(*   SetProperty   one `D` row: applicability by PRESENCE of the attribute *)
(*                 for this format, then the property's value grammar      *)
(*   Validate      consistency of the settings when the CID is completed   *)
(*                                                                         *)
(* A value is abstract: for character properties a (spelling, code point)  *)
(* pair or a malformed class; for the others a named class.  The harness   *)
(* owns the concrete text.  The denotation is the documented table:        *)
(* Applies, Denotes, Defaults, Contradictory.                              *)
(***************************************************************************)
EXTENDS Integers, Sequences, FiniteSets, TLC, Json

CONSTANTS Formats,      \* {"delimited", "fixed", "excel", "ods"}
          Settings,     \* set of settings [prop, v] tried
          MaxSettings   \* 1 or 2 settings per data format

Unset == <<"unset">>
CR == 13
LF == 10
\* which property exists for which format (data.py:117-140)
Applies(fmt, prop) ==
  CASE prop \in {"allowed_characters", "encoding", "header"} -> TRUE
    [] prop \in {"escape_character", "item_delimiter", "quote_character", "quoting", "skip_initial_space"} -> fmt = "delimited"
    [] prop \in {"decimal_separator", "line_delimiter", "thousands_separator"} -> fmt \in {"delimited", "fixed"}
    [] prop = "sheet" -> fmt \in {"excel", "ods"}
    [] OTHER -> FALSE
\* documented character sets (code points)
QuoteChars == {33, 34, 35, 36, 37, 38, 39, 42, 43, 45, 47, 58, 59, 61, 63, 92, 94, 95, 96, 126}
EscapeChars == {34, 92}
DecimalChars == {46, 44}
ThousandsChars == {44, 46, 32}   \* docs/writing-an-icd.rst: "comma (,), dot (.) and the space character"
\* spellings of a character: which ones can spell code point cp at all (the harness never asks for the others)
\* and what a well-formed value denotes; <<"bad">> = must be refused
Denotes(prop, v) ==
  CASE prop = "item_delimiter" ->
         IF v.kind = "char" THEN (IF v.cp = 0 THEN <<"bad">> ELSE <<"ok", v.cp>>) ELSE <<"bad">>
    [] prop = "quote_character" -> IF v.kind = "char" /\ v.sp = "literal" /\ v.cp \in QuoteChars THEN <<"ok", v.cp>> ELSE <<"bad">>
    [] prop = "escape_character" -> IF v.kind = "char" /\ v.sp = "literal" /\ v.cp \in EscapeChars THEN <<"ok", v.cp>> ELSE <<"bad">>
    [] prop = "decimal_separator" -> IF v.kind = "char" /\ v.sp = "literal" /\ v.cp \in DecimalChars THEN <<"ok", v.cp>> ELSE <<"bad">>
    [] prop = "thousands_separator" -> IF v.kind = "char" /\ v.sp = "literal" /\ v.cp \in ThousandsChars THEN <<"ok", v.cp>>
                                       ELSE IF v.kind = "empty" THEN <<"ok", 0>> ELSE <<"bad">>
    [] prop = "line_delimiter" -> IF v.kind = "name" /\ v.name \in {"lf", "cr", "crlf", "any"} THEN <<"ok", v.name>> ELSE <<"bad">>
    [] prop = "encoding" -> IF v.kind = "name" /\ v.name = "known" THEN <<"ok", "known">> ELSE <<"bad">>
    [] prop = "header" -> IF v.kind = "int" /\ v.n >= 0 THEN <<"ok", v.n>> ELSE <<"bad">>
    [] prop = "sheet" -> IF v.kind = "int" /\ v.n >= 1 THEN <<"ok", v.n>> ELSE <<"bad">>
    [] prop = "quoting" -> IF v.kind = "name" /\ v.name \in {"all", "minimal"} THEN <<"ok", v.name>> ELSE <<"bad">>
    [] prop = "skip_initial_space" -> IF v.kind = "name" /\ v.name \in {"true", "false"} THEN <<"ok", v.name>> ELSE <<"bad">>
    [] prop = "allowed_characters" -> IF v.kind = "name" /\ v.name \in {"range", "letters"} THEN <<"ok", v.name>> ELSE <<"bad">>
    [] OTHER -> <<"bad">>
\* the one format-specific extra: "none" names "no line delimiter" for fixed data only
DenotesFor(fmt, prop, v) ==
  IF prop = "line_delimiter" /\ v.kind = "name" /\ v.name = "none" THEN (IF fmt = "fixed" THEN <<"ok", "none">> ELSE <<"bad">>)
  ELSE Denotes(prop, v)

Defaults(fmt) ==
  [p \in {"header", "sheet", "decimal_separator", "thousands_separator", "item_delimiter", "quote_character",
          "escape_character", "line_delimiter", "quoting", "skip_initial_space", "encoding", "allowed_characters"} |->
     CASE p = "header" -> <<0>>
       [] p = "sheet" -> IF fmt \in {"excel", "ods"} THEN <<1>> ELSE Unset
       [] p = "decimal_separator" -> IF fmt \in {"delimited", "fixed"} THEN <<46>> ELSE Unset
       [] p = "thousands_separator" -> IF fmt \in {"delimited", "fixed"} THEN <<0>> ELSE Unset
       [] p = "item_delimiter" -> IF fmt = "delimited" THEN <<44>> ELSE Unset
       [] p = "quote_character" -> IF fmt = "delimited" THEN <<34>> ELSE Unset
       [] p = "escape_character" -> IF fmt = "delimited" THEN <<34>> ELSE Unset
       [] p = "line_delimiter" -> IF fmt \in {"delimited", "fixed"} THEN <<"any">> ELSE Unset
       [] p = "quoting" -> IF fmt = "delimited" THEN <<"minimal">> ELSE Unset
       [] p = "skip_initial_space" -> IF fmt = "delimited" THEN <<"false">> ELSE Unset
       [] p = "encoding" -> <<"cp1252">>
       [] p = "allowed_characters" -> <<"none">>]

\* settings that contradict each other (refused when the CID is completed)
Contradictory(fmt, a) ==
  \/ fmt \in {"delimited", "fixed"} /\ a["decimal_separator"] = a["thousands_separator"]
  \/ fmt = "delimited" /\ \/ a["item_delimiter"] = a["quote_character"]
                          \/ a["item_delimiter"] = a["escape_character"]
                          \/ a["item_delimiter"][1] \in {CR, LF}              \* equals (part of) a line delimiter

VARIABLES fmt, settings,   \* the case: format and the settings to apply, in order
          idx,             \* settings applied so far
          attrs,           \* the data format's attributes
          status,          \* "open" | "refused" | "valid" | "inconsistent"
          asked            \* how often the format has been asked to complete itself (validate())
vars == <<fmt, settings, idx, attrs, status, asked>>

SettingSeqs == UNION {[1..n -> Settings] : n \in 1..MaxSettings}
Init == /\ fmt \in Formats /\ settings \in SettingSeqs
        /\ (Len(settings) = 2 => settings[1].prop # settings[2].prop)
        /\ idx = 0 /\ attrs = Defaults(fmt) /\ status = "open" /\ asked = 0

\* data.py:291-385
SetProperty ==
  /\ status = "open" /\ idx < Len(settings)
  /\ LET s == settings[idx + 1]
         d == DenotesFor(fmt, s.prop, s.v)
     IN IF ~Applies(fmt, s.prop) \/ d[1] = "bad"
        THEN status' = "refused" /\ UNCHANGED attrs
        ELSE attrs' = [attrs EXCEPT ![s.prop] = <<d[2]>>] /\ UNCHANGED status
  /\ idx' = idx + 1 /\ UNCHANGED <<fmt, settings, asked>>
\* data.py:495-523
Validate ==
  /\ status = "open" /\ idx = Len(settings)
  /\ status' = IF Contradictory(fmt, attrs) THEN "inconsistent" ELSE "valid"
  /\ asked' = 1
  /\ UNCHANGED <<fmt, settings, idx, attrs>>
\* a format that was refused for a contradiction is not valid (is_valid stays False) and may be asked again: the answer is the
\* same function of the same attributes
ValidateAgain ==
  /\ status = "inconsistent" /\ asked < 2
  /\ status' = IF Contradictory(fmt, attrs) THEN "inconsistent" ELSE "valid"
  /\ asked' = asked + 1
  /\ UNCHANGED <<fmt, settings, idx, attrs>>
Next == SetProperty \/ Validate \/ ValidateAgain
Spec == Init /\ [][Next]_vars

(* ------------------------------ C11 ------------------------------ *)
\* a property that was never (successfully) set keeps its documented default
DefaultsKept ==
  \A p \in DOMAIN attrs :
    (\A i \in 1..idx : settings[i].prop # p \/ (status = "refused" /\ i = idx)) => attrs[p] = Defaults(fmt)[p]
\* a completed data format never holds contradictory settings
NeverContradictory == status = "valid" => ~Contradictory(fmt, attrs)
\* 'contradictory settings are refused when the CID is completed' -- every time it is completed
RefusalIsFinal == [][status = "inconsistent" => status' = "inconsistent"]_vars
TypeOK == status \in {"open", "refused", "valid", "inconsistent"} /\ idx \in 0..Len(settings) /\ asked \in 0..2
Emit == (status # "open" /\ (status = "inconsistent" => asked = 2)) =>
   PrintT(<<"VEC", ToJson([fmt |-> fmt, settings |-> settings, status |-> status, attrs |-> attrs, refusedAt |-> idx])>>)
=============================================================================
