---------------------------- MODULE FieldDecimal ----------------------------
(***************************************************************************)
(* Decimal fields (part of property C02): cutplace/fields.py:396-431, the  *)
(* character loop that translates the data format's decimal and thousands  *)
(* separators, one action per character, then the range test.              *)
(*                                                                         *)
(* Numbers are scaled integers (value x 100).  A cell is generated from    *)
(* what it is meant to denote: sign, integral part, optional fraction of   *)
(* one or two digits, written with the configured separators (thousands    *)
(* groups properly formed or not used), then possibly one mutation that    *)
(* must make it unacceptable.                                              *)
(***************************************************************************)
EXTENDS Integers, Sequences, FiniteSets, TLC, Json

CONSTANTS Conventions,   \* set of <<decimal separator, thousands separator>>, "" = no thousands separator
          Integrals,     \* integral parts (naturals)
          Fractions,     \* fractions as digit strings: <<>>, <<5>>, <<0, 5>>, <<5, 0>> ...
          RefusesForeignPoint,  \* TRUE (shipped): a "." that is neither the decimal nor the thousands separator of the data
                         \* format is refused; FALSE: pinned code, it is handed to the number parser as a decimal point (D41)
          Rules          \* set of rules: <<>> or sequence of <<lo, hi>> over scaled integers, limit <<>> = open

None == <<>>
DigitChar == <<"0", "1", "2", "3", "4", "5", "6", "7", "8", "9">>
IsDigit(c) == \E d \in 1..10 : DigitChar[d] = c
DigitOf(c) == (CHOOSE d \in 1..10 : DigitChar[d] = c) - 1
RECURSIVE DigitsOf(_)
DigitsOf(n) == IF n < 10 THEN <<DigitChar[n + 1]>> ELSE Append(DigitsOf(n \div 10), DigitChar[(n % 10) + 1])
\* digits with the thousands separator every three digits from the right
RECURSIVE Grouped(_, _)
Grouped(ds, ts) == IF Len(ds) <= 3 THEN ds ELSE Grouped(SubSeq(ds, 1, Len(ds) - 3), ts) \o <<ts>> \o SubSeq(ds, Len(ds) - 2, Len(ds))
FracScaled(f) == IF f = <<>> THEN 0 ELSE IF Len(f) = 1 THEN 10 * f[1] ELSE 10 * f[1] + f[2]
FracChars(f) == [i \in 1..Len(f) |-> DigitChar[f[i] + 1]]

VARIABLES conv, neg, integral, fraction, grouped, mutation, rule,   \* the case
          cell,                                                      \* the text
          rest, translated, foundDs,                                 \* the loop
          outcome                                                    \* <<>> | <<"accept", scaled value>> | <<"reject">>
vars == <<conv, neg, integral, fraction, grouped, mutation, rule, cell, rest, translated, foundDs, outcome>>

Spelled(cv, ng, ip, fr, gr) ==
  (IF ng THEN <<"-">> ELSE <<>>) \o (IF gr /\ cv[2] # "" THEN Grouped(DigitsOf(ip), cv[2]) ELSE DigitsOf(ip))
  \o (IF fr = <<>> THEN <<>> ELSE <<cv[1]>> \o FracChars(fr))
\* the separator of the OTHER convention in place of the decimal separator: "," <-> "."
Foreign(cv) == IF cv[1] = "," THEN "." ELSE ","
\* "underscore", "tab", "otherDigits": texts Python's decimal.Decimal / int take for numbers (digit grouping with "_",
\* surrounding white space, digits of other scripts) but that are no numbers written with the data format's separators
Mutations == {"none", "twoDs", "tsAfterDs", "letter", "foreignDs", "underscore", "tab", "otherDigits"}
Mutated(cv, text, mu) ==
  CASE mu = "none" -> text
    [] mu = "twoDs" -> text \o <<cv[1], "0">>                       \* a second decimal separator
    [] mu = "tsAfterDs" -> text \o <<cv[2], "0", "0", "0">>          \* thousands separator after the decimal separator
    [] mu = "letter" -> [text EXCEPT ![Len(text)] = "x"]
    [] mu = "foreignDs" -> [i \in 1..Len(text) |-> IF text[i] = cv[1] THEN Foreign(cv) ELSE text[i]]   \* written for another locale
    [] mu = "underscore" -> text \o <<"_", "0">>
    [] mu = "tab" -> <<"tab">> \o text
    [] mu = "otherDigits" -> [i \in 1..Len(text) |-> IF text[i] = "0" THEN "arabic0" ELSE text[i]]
Init == /\ conv \in Conventions /\ neg \in BOOLEAN /\ integral \in Integrals /\ fraction \in Fractions
        /\ grouped \in BOOLEAN /\ rule \in Rules
        /\ mutation \in Mutations
        /\ (mutation = "twoDs" => fraction # <<>>) /\ (mutation = "tsAfterDs" => (fraction # <<>> /\ conv[2] # ""))
        /\ (mutation = "foreignDs" => (fraction # <<>> /\ conv[2] # Foreign(conv)))   \* (else it would be a thousands separator)
        /\ (mutation = "otherDigits" => \E i \in 1..Len(Spelled(conv, neg, integral, fraction, grouped)) :
                                          Spelled(conv, neg, integral, fraction, grouped)[i] = "0")
        /\ (grouped => conv[2] # "")
        /\ ~(neg /\ integral = 0 /\ FracScaled(fraction) = 0)
        /\ cell = Mutated(conv, Spelled(conv, neg, integral, fraction, grouped), mutation)
        /\ rest = cell /\ translated = <<>> /\ foundDs = FALSE /\ outcome = <<>>

Case == UNCHANGED <<conv, neg, integral, fraction, grouped, mutation, rule, cell>>
\* fields.py:401-417, one character
ProcessChar ==
  /\ outcome = <<>> /\ rest # <<>> /\ Case
  /\ LET c == Head(rest) IN
     IF c = conv[1]
     THEN IF foundDs THEN outcome' = <<"reject">> /\ UNCHANGED <<rest, translated, foundDs>>
          ELSE translated' = Append(translated, ".") /\ foundDs' = TRUE /\ rest' = Tail(rest) /\ UNCHANGED outcome
     ELSE IF conv[2] # "" /\ c = conv[2]
     THEN IF foundDs THEN outcome' = <<"reject">> /\ UNCHANGED <<rest, translated, foundDs>>
          ELSE rest' = Tail(rest) /\ UNCHANGED <<translated, foundDs, outcome>>
     ELSE IF RefusesForeignPoint /\ c = "." /\ conv[1] # "."
     THEN outcome' = <<"reject">> /\ UNCHANGED <<rest, translated, foundDs>>
     ELSE translated' = Append(translated, c) /\ rest' = Tail(rest) /\ UNCHANGED <<foundDs, outcome>>

\* decimal.Decimal for plain literals: optional minus, digits with at most one point, at least one digit
RECURSIVE ScanNumber(_, _, _, _)
ScanNumber(t, acc, fracDigits, seenPoint) ==       \* -> <<"ok", scaled>> | <<"err">> ; acc counts in units of 10^-fracDigits
  IF t = <<>> THEN <<"ok", IF fracDigits = 0 THEN acc * 100 ELSE IF fracDigits = 1 THEN acc * 10 ELSE acc>>
  ELSE IF Head(t) = "." THEN (IF seenPoint THEN <<"err">> ELSE ScanNumber(Tail(t), acc, 0, TRUE))
  ELSE IF IsDigit(Head(t)) THEN (IF seenPoint /\ fracDigits = 2 THEN <<"err">>     \* (the model holds two fractional digits)
                                 ELSE ScanNumber(Tail(t), acc * 10 + DigitOf(Head(t)), IF seenPoint THEN fracDigits + 1 ELSE 0, seenPoint))
  ELSE <<"err">>
ParseDecimal(t) ==
  IF t = <<>> THEN <<"err">>
  ELSE LET body == IF Head(t) = "-" THEN Tail(t) ELSE t IN
       IF ~\E i \in 1..Len(body) : IsDigit(body[i]) THEN <<"err">>
       ELSE LET r == ScanNumber(body, 0, 0, FALSE) IN
            IF r[1] = "ok" THEN <<"ok", IF Head(t) = "-" THEN -r[2] ELSE r[2]>> ELSE <<"err">>
InItem(v, it) == (it[1] = None \/ it[1][1] <= v) /\ (it[2] = None \/ v <= it[2][1])
InRule(v) == rule = <<>> \/ \E i \in 1..Len(rule) : InItem(v, rule[i])
\* fields.py:419-431
Finish ==
  /\ outcome = <<>> /\ rest = <<>> /\ Case /\ UNCHANGED <<rest, translated, foundDs>>
  /\ LET r == ParseDecimal(translated) IN
     outcome' = IF r[1] = "err" THEN <<"reject">> ELSE IF InRule(r[2]) THEN <<"accept", r[2]>> ELSE <<"reject">>
Next == ProcessChar \/ Finish
Spec == Init /\ [][Next]_vars

(* ------------------------------ C02 (Decimal) ------------------------------ *)
Denoted == (IF neg THEN -1 ELSE 1) * (integral * 100 + FracScaled(fraction))
Expected == IF mutation # "none" THEN <<"reject">> ELSE IF InRule(Denoted) THEN <<"accept", Denoted>> ELSE <<"reject">>
DecimalMeansWhatItSays == outcome # <<>> => outcome = Expected
TypeOK == Len(outcome) <= 2
Emit == outcome # <<>> =>
   PrintT(<<"VEC", ToJson([conv |-> conv, cell |-> cell, rule |-> rule, mutation |-> mutation, outcome |-> outcome,
                            expected |-> Expected, denoted |-> Denoted])>>)
=============================================================================
