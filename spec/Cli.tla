--------------------------------- MODULE Cli ---------------------------------
(***************************************************************************)
(* The command line (property C18): cutplace/applications.py:55-236        *)
(* (CutplaceApp.set_options, set_cid_from_path, validate; process; main).  *)
(*                                                                         *)
(*   ParseArgs     argparse: unusable arguments end with exit code 2       *)
(*   LoadCid       the CID is read once: missing -> 3, rejected -> 1       *)
(*   ValidateFile  one data file after the other with ONE Cid object; a    *)
(*                 rejected file is remembered, an unreadable one ends the *)
(*                 run with 3                                              *)
(*   Finish        1 if any file was rejected, else 0                      *)
(* A data file is abstract: where its first offending row sits (0 = none), *)
(* what kind of offence it is, or that it cannot be read at all.  Whether  *)
(* a file is rejected under '--until N' is the API's rule (Session.tla,    *)
(* LimitBoundary): a rejection is reported iff the offending row's number  *)
(* is at most N.                                                           *)
(***************************************************************************)
EXTENDS Integers, Sequences, FiniteSets, TLC, Json

CONSTANTS CidStates,     \* subset of {"valid", "rejected", "missing"}
          FileKinds,     \* subset of the kinds below
          MaxFiles,
          Headers,       \* values of the CID's Header property: subset of 0..2 (rows that are neither validated nor returned)
          Untils,        \* subset of {"absent", "all", "0", "k1", "k2", "k4", "k9", "huge"}  ("all" = -1; "huge" = 2^63, beyond every file and
                         \* beyond what a C long holds)
          ArgStates,     \* subset of {"ok", "none", "unknownOption", "untilTooSmall", "untilNotNumber", "badLogLevel",
                         \*            "untilWithoutValue", "pluginsWithoutValue", "optionBetweenCidAndData"}
                         \* ("optionBetweenCidAndData": argparse takes CID-FILE and DATA-FILEs as one group of positional
                         \* arguments; `cutplace cid.csv --until 0 data.csv` is refused as unusable, exit code 2)
          Decorations    \* how a usable command line is written: subset of {"plain", "logDebug", "logCritical", "pluginsEmpty",
                         \* "shortUntil", "untilEquals", "optionsLast"}; no action reads it -- the exit code
                         \* is a function of CID, files and limit alone (the replay is what checks that)

\* first offending row of each kind of file (0 = none); "shares" has the same keys as its sibling "accepted" file
\* ("lateDamage": the container itself is malformed at row 4 -- delimited text the csv reader refuses there;
\* "endRejected": five rows every one of which is accepted, but the fourth brings the fourth distinct name and the CID's
\* DistinctCount check allows three -- the file is rejected at the END of the validation iff four rows reached the check)
BadAt(kind) == CASE kind = "accepted" -> 0 [] kind = "shares" -> 0 [] kind = "fieldRejected" -> 2 [] kind = "dupRejected" -> 3
                 [] kind = "lateDamage" -> 4 [] kind = "endRejected" -> 4 [] OTHER -> 0
Unreadable(kind) == kind \in {"missing", "directory"}
Limit(u) == CASE u = "absent" -> -1 [] u = "all" -> -1 [] u = "0" -> 0 [] u = "k1" -> 1 [] u = "k2" -> 2 [] u = "k4" -> 4 [] u = "k9" -> 9 [] u = "huge" -> 99
\* With h header rows: a row that offends a field or a check is reported iff it is a data row and its number is at most the limit
\* (Session.tla, LimitBoundary). A container that is malformed in row r is another matter: the limit N makes the validate-only
\* API (and the command line) stop after N data rows, i.e. after h + N rows of the container -- the damage is met iff it lies
\* within them, and with N = 0 nothing is read at all.
Rejected(kind, u, h) ==
  IF kind = "lateDamage" THEN Limit(u) = -1 \/ (Limit(u) > 0 /\ BadAt(kind) <= h + Limit(u))
  ELSE BadAt(kind) > h /\ (Limit(u) = -1 \/ BadAt(kind) <= Limit(u))

VARIABLES args, cid, files, until, deco, header,   \* the command line and the CID's Header property
          stage,                     \* "args" | "cid" | "files" | "done"
          idx, allOk, exit
vars == <<args, cid, files, until, deco, header, stage, idx, allOk, exit>>

FileLists == UNION {[1..n -> FileKinds] : n \in 0..MaxFiles}
Init == /\ args \in ArgStates /\ cid \in CidStates /\ files \in FileLists /\ until \in Untils /\ deco \in Decorations /\ header \in Headers
        /\ stage = "args" /\ idx = 0 /\ allOk = TRUE /\ exit = -1
Same == UNCHANGED <<args, cid, files, until, deco, header>>
\* applications.py:55-134
ParseArgs == /\ stage = "args" /\ Same /\ UNCHANGED <<idx, allOk>>
             /\ IF args # "ok" THEN stage' = "done" /\ exit' = 2 ELSE stage' = "cid" /\ UNCHANGED exit
\* applications.py:136-147 (called from set_options)
LoadCid == /\ stage = "cid" /\ Same /\ UNCHANGED <<idx, allOk>>
           /\ CASE cid = "missing" -> stage' = "done" /\ exit' = 3
                [] cid = "rejected" -> stage' = "done" /\ exit' = 1
                [] cid = "valid" -> stage' = "files" /\ UNCHANGED exit
\* applications.py:149-166 and 194-199
ValidateFile == /\ stage = "files" /\ idx < Len(files) /\ Same
                /\ LET kind == files[idx + 1] IN
                   IF Unreadable(kind) THEN stage' = "done" /\ exit' = 3 /\ UNCHANGED <<idx, allOk>>
                   ELSE /\ allOk' = (allOk /\ ~Rejected(kind, until, header)) /\ idx' = idx + 1 /\ UNCHANGED <<stage, exit>>
\* applications.py:200-202
Finish == /\ stage = "files" /\ idx = Len(files) /\ Same /\ UNCHANGED <<idx, allOk>>
          /\ stage' = "done" /\ exit' = IF allOk THEN 0 ELSE 1
Next == ParseArgs \/ LoadCid \/ ValidateFile \/ Finish
Spec == Init /\ [][Next]_vars

(* ------------------------------ C18: the exit-code table, independent of the order of the files ------------------------------ *)
Kinds == {files[i] : i \in 1..Len(files)}
ExitOf == IF args # "ok" THEN 2
          ELSE IF cid = "missing" THEN 3
          ELSE IF cid = "rejected" THEN 1
          ELSE IF \E k \in Kinds : Unreadable(k) THEN 3
          ELSE IF \E k \in Kinds : Rejected(k, until, header) THEN 1
          ELSE 0
ExitCodeTable == stage = "done" =>
   \* (an unreadable file behind a rejected one: the run ends with 3 in either order)
   exit = ExitOf
ZeroIffAllAccepted == stage = "done" => ((exit = 0) <=> (args = "ok" /\ cid = "valid" /\ \A k \in Kinds : ~Unreadable(k) /\ ~Rejected(k, until, header)))
TypeOK == exit \in {-1, 0, 1, 2, 3}
Emit == stage = "done" =>
   PrintT(<<"VEC", ToJson([args |-> args, cid |-> cid, files |-> files, until |-> until, deco |-> deco, header |-> header, exit |-> exit])>>)
=============================================================================
