\* generated by tools/gen_cfgs.py; root module: MCSessionKey
SPECIFICATION Spec
CONSTANTS
  MaxRows = 3
  NFields = 2
  Checks <- CK1
  Header = 0
  Tables <- TheTables
  Modes <- AllModes
  Limits <- Limits3
  Apis = {"rows", "reader"}
  Ends = {"close"}
  Writers = FALSE
  MaxOps = 1
  Rereads = FALSE
  Parking = FALSE
  ResetOnOpen = TRUE
  ResetOnStart = TRUE
  RegisterOnReach = FALSE
  RegisterBeforeWrite = FALSE
  EndChecksOnError = FALSE
  LogCalls = FALSE
INVARIANT TypeOK
INVARIANT HistoryIndependence
INVARIANT RowAcceptedIff
INVARIANT ErrorLocation
INVARIANT UniqueIffEarlierAccepted
INVARIANT DistinctAtEnd
INVARIANT ModesAgree
INVARIANT CountersAddUp
INVARIANT FaultStopsEveryMode
INVARIANT HeaderNeverValidated
INVARIANT LimitBoundary
INVARIANT ValidateStopsAfterN
INVARIANT WriterEmitsAccepted
INVARIANT OutputRevalidates
INVARIANT Emit
PROPERTY ChecksOnlyChangeInsideASession
CHECK_DEADLOCK FALSE
