--------------------------- MODULE MCSessionBase ---------------------------
(* Constants shared by the model-checking instances of Session.tla.  TLC      *)
(* evaluates every zero-arity constant definition of the root module at start *)
(* up, so each family of tables lives in its own small module.                *)
EXTENDS Session

R(a, b) == [w |-> "ok", c |-> <<"ok", "ok">>, v |-> <<a, b>>]
Bad1 == [w |-> "ok", c |-> <<"rej", "ok">>, v |-> <<1, 1>>]
Bad2 == [w |-> "ok", c |-> <<"ok", "rej">>, v |-> <<1, 1>>]
BadBoth == [w |-> "ok", c |-> <<"rej", "rej">>, v |-> <<2, 2>>]
Short == [w |-> "short", c |-> <<"ok">>, v |-> <<1>>]
Empty == [w |-> "empty", c |-> <<>>, v |-> <<>>]
Long == [w |-> "long", c |-> <<"ok", "ok", "ok">>, v |-> <<1, 1, 1>>]
T(rows) == [rows |-> rows, fault |-> 0]
F(rows, k) == [rows |-> rows, fault |-> k]
RECURSIVE SeqsUpTo(_, _)
SeqsUpTo(S, n) == IF n = 0 THEN {<<>>}
                  ELSE LET P == SeqsUpTo(S, n - 1) IN P \cup {Append(p, x) : p \in {q \in P : Len(q) = n - 1}, x \in S}

AllModes == {"raise", "yield", "continue"}
YieldOnly == {"yield"}
TwoModes == {"raise", "yield"}
NoLimit == {<<>>}
Limits6 == {<<>>, <<0>>, <<1>>, <<2>>, <<3>>, <<4>>, <<5>>, <<6>>}
HLimits == {<<>>, <<0>>, <<1>>}

UD == << [t |-> "u", key |-> <<1>>], [t |-> "d", f |-> 2, op |-> "lt", n |-> 2] >>
U1 == << [t |-> "u", key |-> <<1>>] >>
UUChecks == << [t |-> "u", key |-> <<1>>], [t |-> "u", key |-> <<2>>] >>
HChecks == << [t |-> "u", key |-> <<1>>], [t |-> "d", f |-> 2, op |-> "lt", n |-> 2] >>
CK1 == << [t |-> "u", key |-> <<1>>], [t |-> "d", f |-> 2, op |-> "lt", n |-> 2] >>
CK2 == << [t |-> "u", key |-> <<1, 2>>], [t |-> "d", f |-> 1, op |-> "ge", n |-> 2] >>
CK3 == << [t |-> "d", f |-> 1, op |-> "eq", n |-> 1], [t |-> "u", key |-> <<2>>] >>
CK4 == << [t |-> "d", f |-> 2, op |-> "ne", n |-> 2], [t |-> "d", f |-> 1, op |-> "le", n |-> 1] >>
CK5 == << [t |-> "u", key |-> <<2, 1>>], [t |-> "d", f |-> 2, op |-> "gt", n |-> 0] >>
CK6 == << [t |-> "d", f |-> 1, op |-> "lt", n |-> 0] >>
CK7 == << [t |-> "d", f |-> 2, op |-> "ge", n |-> 3], [t |-> "u", key |-> <<1>>] >>
CK8 == << [t |-> "d", f |-> 1, op |-> "eq", n |-> 0], [t |-> "d", f |-> 2, op |-> "gt", n |-> 1] >>
\* ---- C20: recording fields and checks
\* checks: an accepting one, one that vetoes rows whose first value is 2, one that fails at the end
PChecks == << [t |-> "p", veto |-> 0, endFail |-> FALSE], [t |-> "p", veto |-> 2, endFail |-> FALSE],
              [t |-> "p", veto |-> 0, endFail |-> TRUE] >>
PChecks2 == << [t |-> "p", veto |-> 2, endFail |-> TRUE], [t |-> "p", veto |-> 1, endFail |-> FALSE] >>
Limits3 == {<<>>, <<1>>, <<2>>}
NoChecks == <<>>
=============================================================================
