------------------------------ MODULE Delimited ------------------------------
(***************************************************************************)
(* Delimited data written and read back (property C12).                    *)
(*                                                                         *)
(* cutplace's own part is small: which configurations the CID loader       *)
(* accepts (data.py:515-522, DataFormat.validate) and how a data format is *)
(* turned into keywords for Python's csv module (rowio.py:152-172,         *)
(* _as_delimited_keywords: doublequote iff escape character = quote        *)
(* character).  The csv writer and reader themselves are modelled as pure  *)
(* operators transcribed from CPython's _csv.c (join_append_data and       *)
(* parse_process_char, strict mode, no initial-space skipping); the        *)
(* harness checks this transcription against the csv module of the running *)
(* interpreter on every behaviour, so a wrong automaton is a machinery     *)
(* failure and never an alarm about cutplace.                              *)
(*                                                                         *)
(* Characters are small integers; a configuration assigns roles to them.   *)
(*   1 ','   2 '"'   3 '\'   4 CR   5 LF   6 ' '   7 'x'   8 "'"           *)
(*                                                                         *)
(* Deviation switch LoaderRefusesClash: TRUE (shipped) -- the loader       *)
(* refuses an item delimiter that equals the escape character or is a line *)
(* break; FALSE -- the pinned loader, which accepts them (D7): TLC then    *)
(* finds tables that do not survive the round trip.                        *)
(***************************************************************************)
EXTENDS Integers, Sequences, FiniteSets, TLC, Json

CONSTANTS DelimChoices, QuoteChoices, EscChoices,   \* sets of characters
          CellChars,                                 \* characters a cell may hold
          MaxChars, MaxCells, MaxRows,               \* bounds on a table: total characters, total cells, rows
          MaxRaw,                                    \* raw reading: texts of up to MaxRaw characters that no writer produced (0: none)
          LoaderRefusesClash

CR == 4
LF == 5
EOL == 0

VARIABLES cfg,      \* [delim, quote, esc, qall]
          table,    \* sequence of rows, each a sequence of cells, each a sequence of characters
          phase,    \* "build" | "written" | "read" | "refused" | "typing" | "rawread"
          text,     \* what DelimitedRowWriter produced
          back      \* what delimited_rows returned: <<"ok", rows>> or <<"err">>
vars == <<cfg, table, phase, text, back>>

(* ------------------- cutplace: acceptance and keyword mapping ------------------- *)
\* data.py:515-522 (line delimiter settings never equal a single item delimiter text, so they drop out here)
LoaderAccepts(c) == /\ c.delim # c.quote
                    /\ LoaderRefusesClash => (c.delim # c.esc /\ c.delim \notin {CR, LF})
\* rowio.py:157-172
Kw(c) == [delim |-> c.delim, quote |-> c.quote, dq |-> (c.esc = c.quote),
          esc |-> IF c.esc = c.quote THEN 0 ELSE c.esc, qall |-> c.qall]

(* ------------------------------ csv.writer ------------------------------ *)
RECURSIVE WCell(_, _, _, _)
WCell(kw, f, body, quoted) ==
  IF f = <<>> THEN <<body, quoted>>
  ELSE LET c == Head(f)
           special == c = kw.delim \/ (kw.esc # 0 /\ c = kw.esc) \/ c = kw.quote \/ c \in {CR, LF}
           isQ == c = kw.quote
           wantEsc == special /\ (IF isQ THEN ~kw.dq ELSE (kw.esc # 0 /\ c = kw.esc))
           add == (IF special /\ isQ /\ kw.dq THEN <<kw.quote>> ELSE <<>>) \o (IF wantEsc THEN <<kw.esc>> ELSE <<>>) \o <<c>>
       IN WCell(kw, Tail(f), body \o add, quoted \/ (special /\ ~wantEsc))
WField(kw, f, alone) ==
  LET r == WCell(kw, f, <<>>, kw.qall)
      quoted == r[2] \/ (alone /\ f = <<>>)          \* a single empty field is written as ""
  IN IF quoted THEN <<kw.quote>> \o r[1] \o <<kw.quote>> ELSE r[1]
RECURSIVE WRow(_, _, _)
WRow(kw, row, i) == IF i > Len(row) THEN <<CR, LF>>
                    ELSE (IF i > 1 THEN <<kw.delim>> ELSE <<>>) \o WField(kw, row[i], Len(row) = 1) \o WRow(kw, row, i + 1)
RECURSIVE WTable(_, _)
WTable(kw, t) == IF t = <<>> THEN <<>> ELSE WRow(kw, Head(t), 1) \o WTable(kw, Tail(t))

(* ------------------------------ csv.reader ------------------------------ *)
\* io.StringIO(newline='') line splitting: LF, CR and CR LF end a line and are kept
RECURSIVE LinesOf(_, _)
LinesOf(t, cur) ==
  IF t = <<>> THEN (IF cur = <<>> THEN <<>> ELSE <<cur>>)
  ELSE IF Head(t) = LF THEN <<Append(cur, LF)>> \o LinesOf(Tail(t), <<>>)
  ELSE IF Head(t) = CR THEN
         IF Len(t) >= 2 /\ t[2] = LF THEN <<cur \o <<CR, LF>>>> \o LinesOf(Tail(Tail(t)), <<>>)
         ELSE <<Append(cur, CR)>> \o LinesOf(Tail(t), <<>>)
  ELSE LinesOf(Tail(t), Append(cur, Head(t)))

\* reader state: [s |-> state name, f |-> current field, fs |-> fields of the record, bad |-> BOOLEAN]
Save(st) == [st EXCEPT !.fs = Append(@, st.f), !.f = <<>>]
IsNl(c) == c \in {CR, LF}
\* parse_process_char
RECURSIVE Tr(_, _, _)
Tr(kw, st, c) ==
  CASE st.s = "START_RECORD" ->
         IF c = EOL THEN st
         ELSE IF IsNl(c) THEN [st EXCEPT !.s = "EAT_CRNL"]
         ELSE Tr(kw, [st EXCEPT !.s = "START_FIELD"], c)
    [] st.s = "START_FIELD" ->
         IF IsNl(c) \/ c = EOL THEN [Save(st) EXCEPT !.s = IF c = EOL THEN "START_RECORD" ELSE "EAT_CRNL"]
         ELSE IF c = kw.quote THEN [st EXCEPT !.s = "IN_QUOTED_FIELD"]
         ELSE IF kw.esc # 0 /\ c = kw.esc THEN [st EXCEPT !.s = "ESCAPED_CHAR"]
         ELSE IF c = kw.delim THEN Save(st)
         ELSE [st EXCEPT !.f = Append(@, c), !.s = "IN_FIELD"]
    [] st.s = "ESCAPED_CHAR" ->
         IF IsNl(c) THEN [st EXCEPT !.f = Append(@, c), !.s = "AFTER_ESCAPED_CRNL"]
         ELSE [st EXCEPT !.f = Append(@, IF c = EOL THEN LF ELSE c), !.s = "IN_FIELD"]
    [] st.s \in {"IN_FIELD", "AFTER_ESCAPED_CRNL"} ->
         IF st.s = "AFTER_ESCAPED_CRNL" /\ c = EOL THEN st
         ELSE IF IsNl(c) \/ c = EOL THEN [Save(st) EXCEPT !.s = IF c = EOL THEN "START_RECORD" ELSE "EAT_CRNL"]
         ELSE IF kw.esc # 0 /\ c = kw.esc THEN [st EXCEPT !.s = "ESCAPED_CHAR"]
         ELSE IF c = kw.delim THEN [Save(st) EXCEPT !.s = "START_FIELD"]
         ELSE [st EXCEPT !.f = Append(@, c)]
    [] st.s = "IN_QUOTED_FIELD" ->
         IF c = EOL THEN st
         ELSE IF kw.esc # 0 /\ c = kw.esc THEN [st EXCEPT !.s = "ESCAPE_IN_QUOTED_FIELD"]
         ELSE IF c = kw.quote THEN [st EXCEPT !.s = IF kw.dq THEN "QUOTE_IN_QUOTED_FIELD" ELSE "IN_FIELD"]
         ELSE [st EXCEPT !.f = Append(@, c)]
    [] st.s = "ESCAPE_IN_QUOTED_FIELD" ->
         [st EXCEPT !.f = Append(@, IF c = EOL THEN LF ELSE c), !.s = "IN_QUOTED_FIELD"]
    [] st.s = "QUOTE_IN_QUOTED_FIELD" ->
         IF c = kw.quote THEN [st EXCEPT !.f = Append(@, c), !.s = "IN_QUOTED_FIELD"]
         ELSE IF c = kw.delim THEN [Save(st) EXCEPT !.s = "START_FIELD"]
         ELSE IF IsNl(c) \/ c = EOL THEN [Save(st) EXCEPT !.s = IF c = EOL THEN "START_RECORD" ELSE "EAT_CRNL"]
         ELSE [st EXCEPT !.bad = TRUE]                      \* strict: delimiter expected after quote
    [] st.s = "EAT_CRNL" ->
         IF IsNl(c) THEN st
         ELSE IF c = EOL THEN [st EXCEPT !.s = "START_RECORD"]
         ELSE [st EXCEPT !.bad = TRUE]                      \* new-line character seen in unquoted field

RECURSIVE TrLine(_, _, _)
TrLine(kw, st, line) == IF st.bad THEN st
                        ELSE IF line = <<>> THEN Tr(kw, st, EOL)
                        ELSE TrLine(kw, Tr(kw, st, Head(line)), Tail(line))
Fresh == [s |-> "START_RECORD", f |-> <<>>, fs |-> <<>>, bad |-> FALSE]
\* Reader_iternext: one record may span several lines; rows so far, lines left, state, first line of the record?
RECURSIVE Rd(_, _, _, _, _)
Rd(kw, lines, rows, st, first) ==
  IF lines = <<>>
  THEN IF first THEN <<"ok", rows>>
       ELSE IF st.f # <<>> \/ st.s = "IN_QUOTED_FIELD" THEN <<"err">>    \* strict: unexpected end of data
       ELSE <<"ok", IF st.fs = <<>> THEN rows ELSE Append(rows, st.fs)>>
  ELSE LET st2 == TrLine(kw, st, Head(lines)) IN
       IF st2.bad THEN <<"err">>
       ELSE IF st2.s = "START_RECORD" THEN Rd(kw, Tail(lines), Append(rows, st2.fs), Fresh, TRUE)
       ELSE Rd(kw, Tail(lines), rows, st2, FALSE)
ReadAll(kw, t) == Rd(kw, LinesOf(t, <<>>), <<>>, Fresh, TRUE)

(* ------------------------------ the machine ------------------------------ *)
Configs == {[delim |-> d, quote |-> q, esc |-> e, qall |-> a] :
              d \in DelimChoices, q \in QuoteChoices, e \in EscChoices, a \in BOOLEAN}
NChars(t) == LET RECURSIVE N(_) N(s) == IF s = <<>> THEN 0 ELSE Len(Head(s)) + N(Tail(s))
                 RECURSIVE M(_) M(s) == IF s = <<>> THEN 0 ELSE N(Head(s)) + M(Tail(s)) IN M(t)
NCells(t) == LET RECURSIVE M(_) M(s) == IF s = <<>> THEN 0 ELSE Len(Head(s)) + M(Tail(s)) IN M(t)

Init == cfg \in Configs /\ table = <<>> /\ phase = "build" /\ text = <<>> /\ back = <<>>

\* the CID loader decides first (Cid.read -> DataFormat.validate)
Refuse == /\ phase = "build" /\ table = <<>> /\ ~LoaderAccepts(cfg)
          /\ phase' = "refused" /\ UNCHANGED <<cfg, table, text, back>>
LastRow == table[Len(table)]
AddRow == /\ phase = "build" /\ LoaderAccepts(cfg) /\ Len(table) < MaxRows /\ NCells(table) < MaxCells
          /\ table' = Append(table, <<<<>>>>) /\ UNCHANGED <<cfg, phase, text, back>>
AddCell == /\ phase = "build" /\ table # <<>> /\ NCells(table) < MaxCells
           /\ table' = [table EXCEPT ![Len(table)] = Append(@, <<>>)] /\ UNCHANGED <<cfg, phase, text, back>>
AddChar == /\ phase = "build" /\ table # <<>> /\ NChars(table) < MaxChars
           /\ \E c \in CellChars \cup {cfg.delim, cfg.quote, cfg.esc} :
                table' = [table EXCEPT ![Len(table)][Len(LastRow)] = Append(@, c)]
           /\ UNCHANGED <<cfg, phase, text, back>>
\* DelimitedRowWriter.write_rows (rowio.py:535-551)
Write == /\ phase = "build" /\ LoaderAccepts(cfg)
         /\ text' = WTable(Kw(cfg), table) /\ phase' = "written" /\ UNCHANGED <<cfg, table, back>>
\* delimited_rows (rowio.py:175-202)
Read == /\ phase = "written"
        /\ back' = ReadAll(Kw(cfg), text) /\ phase' = "read" /\ UNCHANGED <<cfg, table, text>>
\* reading text that no writer produced (stray quotes, escapes at the end, bare line breaks ...): character by character,
\* then delimited_rows; what it must return is what the csv reader automaton says, rows or a refusal
TypeChar == /\ MaxRaw > 0 /\ LoaderAccepts(cfg) /\ ~cfg.qall                \* (quoting is a writer's setting)
            /\ (phase = "build" /\ table = <<>>) \/ phase = "typing"
            /\ Len(text) < MaxRaw
            /\ \E c \in CellChars \cup {cfg.delim, cfg.quote, cfg.esc, CR, LF} : text' = Append(text, c)
            /\ phase' = "typing" /\ UNCHANGED <<cfg, table, back>>
ReadRaw == /\ phase = "typing"
           /\ back' = ReadAll(Kw(cfg), text) /\ phase' = "rawread" /\ UNCHANGED <<cfg, table, text>>
Next == Refuse \/ AddRow \/ AddCell \/ AddChar \/ Write \/ Read \/ TypeChar \/ ReadRaw
Spec == Init /\ [][Next]_vars

(* ------------------------------ C12 ------------------------------ *)
RoundTrip == phase = "read" => back = <<"ok", table>>
TypeOK == phase \in {"build", "written", "read", "refused", "typing", "rawread"}
\* raw reading: whatever is returned holds every character that is not consumed as delimiter, quote, escape or line end
\* at most once (the reader invents nothing)
RawNeverLonger == phase = "rawread" /\ back[1] = "ok" =>
   LET RECURSIVE N(_) N(r) == IF r = <<>> THEN 0 ELSE Len(Head(r)) + N(Tail(r))
       RECURSIVE M(_) M(t) == IF t = <<>> THEN 0 ELSE N(Head(t)) + M(Tail(t))
   IN M(back[2]) <= Len(text)
Emit == phase \in {"read", "refused", "rawread"} =>
   PrintT(<<"VEC", ToJson([cfg |-> cfg, table |-> table, text |-> text, back |-> back, phase |-> phase])>>)
=============================================================================
