SPECIFICATION Spec
CONSTANTS
  DelimChoices <- Delims
  QuoteChoices <- Quotes
  EscChoices <- Escs
  CellChars <- Cells
  MaxChars = 0
  MaxCells = 0
  MaxRaw = 4
  MaxRows = 0
  LoaderRefusesClash = TRUE
INVARIANT TypeOK
INVARIANT RoundTrip
INVARIANT RawNeverLonger
INVARIANT Emit
CHECK_DEADLOCK FALSE
