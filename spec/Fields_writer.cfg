\* the writer's view (C14): formats a validating writer exists for
SPECIFICATION Spec
CONSTANTS
  Formats <- WriterFormats
  LengthDecls <- Decls
  FixedWidths <- Widths
  MaxCell = 4
  StripBeforeEmptyGuard = TRUE
  BlankCellSkipsCharGuard = TRUE
  StripsBlanksOnly = TRUE
INVARIANT TypeOK
INVARIANT GuardsHold
INVARIANT Emit
CHECK_DEADLOCK FALSE
