-------------------------- MODULE MCFieldDateTime --------------------------
EXTENDS FieldDateTime
\* all orders of DD MM and a year (4 or 2 digits) with one separator class, date-only
Orders(y) == { <<"DD", "MM", y>>, <<"DD", y, "MM">>, <<"MM", "DD", y>>, <<"MM", y, "DD">>, <<y, "MM", "DD">>, <<y, "DD", "MM">> }
WithSep(o, s) == IF s = "" THEN o ELSE <<o[1], s, o[2], s, o[3]>>
DateLayouts == { WithSep(o, s) : o \in Orders("YYYY") \cup Orders("YY"), s \in {".", "-", "/", ""} }
TimeLayouts == { <<"hh", ":", "mm">>, <<"hh", ":", "mm", ":", "ss">>, <<"hh", "mm">>, <<"hh", "%", "mm">> }
BothLayouts == { <<"YYYY", "-", "MM", "-", "DD", " ", "hh", ":", "mm", ":", "ss">>, <<"DD", ".", "MM", ".", "YY", " ", "hh", ":", "mm">> }
\* placeholders that touch: the month directly followed by the minutes, a literal Y after the year
TouchingLayouts == { <<"MM", "mm">>, <<"YYYY", "MM", "mm">>, <<"DD", "MM", "mm", "ss">>, <<"YYYY", "Y">>, <<"hh", "mm", "MM">> }
AllLayouts == DateLayouts \cup TimeLayouts \cup BothLayouts \cup TouchingLayouts
D == {0, 1, 28, 29, 30, 31, 32}
M == {0, 1, 2, 4, 12, 13}
Y4 == {1900, 2000, 2019, 2020, 2100}
Y2 == {0, 19, 20, 68, 69, 99}
H == {0, 23, 24}
Mi == {0, 59, 60}
Se == {0, 59, 62}
=============================================================================
