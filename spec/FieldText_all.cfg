SPECIFICATION Spec
CONSTANTS
  Kinds <- AllKinds
  Words <- W
  GlobChars <- G
  Atoms <- At
  TextChars <- TC
  MaxRule = 3
  MaxText = 3
INVARIANT TypeOK
INVARIANT TextMeansWhatItSays
INVARIANT Emit
CHECK_DEADLOCK FALSE
