SPECIFICATION Spec
CONSTANTS
  MaxSteps = 5
  Amounts = {1, 3}
  CellTargets = {0, 2}
INVARIANT TypeOK
INVARIANT Emit
PROPERTY LineStartsAfresh
PROPERTY SheetStartsAfresh
PROPERTY CopiesStay
PROPERTY OnlyForward
CHECK_DEADLOCK FALSE
