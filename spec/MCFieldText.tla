---------------------------- MODULE MCFieldText ----------------------------
EXTENDS FieldText
AllKinds == {"choice", "constant", "pattern", "regex"}
W == {"a", "A", "b", "ab", "Ab"}
G == {"a", "b", "?", "*", "[ab]", "[!a]"}
At == {[ch |-> c, star |-> FALSE] : c \in {"a", "b", ".", "$"}} \cup {[ch |-> c, star |-> TRUE] : c \in {"a", "b", "."}}
TC == {"a", "A", "b"}
=============================================================================
