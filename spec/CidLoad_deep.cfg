SPECIFICATION Spec
CONSTANTS
  Formats <- AllFormats
  MaxFields = 6
  MaxChecks = 3
  FTags <- FieldTags
  CTags <- CheckTags
  Decorations <- AllDeco
INVARIANT TypeOK
INVARIANT AcceptedIffSound
INVARIANT RejectionNamesTheRow
INVARIANT KeepsOrder
INVARIANT Emit
CHECK_DEADLOCK FALSE
