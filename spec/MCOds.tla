-------------------------------- MODULE MCOds --------------------------------
EXTENDS Ods
SmallChars == {"a", "sp", "nl"}
AllChars == {"a", "b", "sp", "tab", "nl", "lt", "e9"}
AllFeatures == SUBSET {"colruns", "rowruns", "selems", "spans", "paras", "notes"}
SomeFeatures == {{}, {"colruns"}, {"rowruns"}, {"selems"}, {"spans"}, {"paras"}, {"notes"},
                 {"colruns", "rowruns", "selems", "spans", "paras", "notes"}}
NoRowRuns == {f \in AllFeatures : "rowruns" \notin f}
OneSheet == {<<1, 1>>}
AllSheets == {<<n, k>> : n \in 0..3, k \in 1..4}          \* (a document may hold no sheet at all)
=============================================================================
