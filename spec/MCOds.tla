-------------------------------- MODULE MCOds --------------------------------
EXTENDS Ods
SmallChars == {"a", "sp", "nl"}
AllChars == {"a", "b", "sp", "tab", "nl", "lt", "e9"}
\* ("notes", "rowgroups" and "merged" do not interact with how text is written: they are combined with the others in
\* SomeFeatures and StructureFeatures only)
AllFeatures == SUBSET {"colruns", "rowruns", "selems", "spans", "paras"}
StructureFeatures == {s \cup t : s \in SUBSET {"notes", "rowgroups", "merged"}, t \in {{}, {"colruns"}, {"colruns", "rowruns", "spans"}}}
SomeFeatures == {{}, {"colruns"}, {"rowruns"}, {"selems"}, {"spans"}, {"paras"}, {"notes"}, {"rowgroups"}, {"merged"},
                 {"colruns", "rowruns", "selems", "spans", "paras", "notes", "rowgroups", "merged"}}
NoRowRuns == {f \in AllFeatures : "rowruns" \notin f}
OneSheet == {<<1, 1>>}
AllSheets == {<<n, k>> : n \in 0..3, k \in 1..4}          \* (a document may hold no sheet at all)
=============================================================================
