\* CIDs with header rows: where the validation limit stops reading (csv storage only: the container damage is one of text)
SPECIFICATION Spec
CONSTANTS
  CidStates <- OneCid
  FileKinds <- HeaderKinds
  MaxFiles = 2
  Untils <- HeaderUntils
  Headers <- SomeHeaders
  Decorations <- Plain
  ArgStates <- OkArgs
INVARIANT TypeOK
INVARIANT ExitCodeTable
INVARIANT ZeroIffAllAccepted
INVARIANT Emit
CHECK_DEADLOCK FALSE
