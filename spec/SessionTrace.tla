---------------------------- MODULE SessionTrace ----------------------------
(***************************************************************************)
(* Trace validation (code -> spec) for Session.tla.                        *)
(*                                                                         *)
(* Event logs recorded from the real code (hooks in cutplace/validio.py    *)
(* behind CUTPLACE_VERIF=1, written by cutplace/_verif.py) are checked     *)
(* against the actions of Session.tla: every trace action is               *)
(*     IsEvent(e) /\ <bind logged fields> /\ <action of Session> /\ <logged *)
(*     scalar state equals the state the action produced>.                 *)
(* A trace holds all events of one Cid object in the order they happened;  *)
(* the file named by the environment variable TRACE_FILE holds a sequence  *)
(* of such traces (all with the same number of fields, checks and header,  *)
(* which are the CONSTANTS of Session).  Preprocessing (harness/tracelib.py)*)
(* only transcribes: it attaches to every `open` event the rows the        *)
(* session went on to process (row content as logged by the row events:    *)
(* item-count class, per-field interned cell text, and the cell classes    *)
(* implied by the logged outcome) and pairs write_begin/write_end and      *)
(* close_begin/close_end; it computes no state.                            *)
(*                                                                         *)
(* What is checked at every step of every recorded run: all checks empty   *)
(* when a reader or writer is created and again at the first row (C08);    *)
(* rows numbered consecutively, location line = rows consumed, header rows *)
(* and rows beyond the limit classified by their number alone (C04, C07);  *)
(* counters move as the mode prescribes (C06); the error class, row,       *)
(* column and see-also row are the ones RowVerdict computes from the       *)
(* bookkeeping so far (C04, C05); the size of every check's bookkeeping    *)
(* after the step (C05); a rejected written row emits nothing and does not *)
(* advance the line (C14); the end-of-data verdict is EndFailure (C05).    *)
(***************************************************************************)
EXTENDS Session, IOUtils

Traces == JsonDeserialize(IOEnv.TRACE_FILE)

VARIABLES tid, l
tvars == <<chk, sess, hist, calls, parked, tid, l>>

Ev == Traces[tid][l]
More == l <= Len(Traces[tid])
StepL == l' = l + 1 /\ UNCHANGED tid
Step == StepL /\ UNCHANGED parked
Sizes(c) == [i \in 1..NChecks |-> Cardinality(c[i])]
LastOf(s) == s[Len(s)]

TInit == Init /\ tid \in 1..Len(Traces) /\ l = 1

\* Reader.__init__ / Writer.__init__ (a session that was never closed is simply followed by the next open)
TrOpen ==
  /\ More /\ Ev.ev = "open"
  /\ chk' = IF ResetOnOpen THEN EmptyChk ELSE chk
  /\ Ev.sizes = Sizes(chk')                                                   \* C08: created with empty bookkeeping
  /\ sess' = IF Ev.kind = "reader"
             THEN [kind |-> "reader", api |-> "reader", ds |-> [rows |-> Ev.rows, fault |-> 0], mode |-> Ev.mode,
                   limit |-> IF Ev.until < 0 THEN None ELSE Some(Ev.until), end |-> "close", k |-> 0,
                   started |-> FALSE, pos |-> 0, out |-> <<>>, acc |-> 0, rej |-> 0, yielded |-> 0, exc |-> NoErr,
                   resumed |-> FALSE, createdAt |-> 0, again |-> FALSE, sid |-> Ev.sid]
             ELSE [kind |-> "writer", ds |-> [rows |-> Ev.rows, fault |-> 0], closes |-> TRUE, pos |-> 0, line |-> 0,
                   out |-> <<>>, acc |-> 0, rej |-> 0, sid |-> Ev.sid]
  \* a reader that was created and not started yet stays behind (Park); any other unfinished session is simply dropped
  /\ parked' = IF sess.kind = "reader" /\ ~sess.started /\ parked.kind = "none" THEN sess ELSE parked
  /\ calls' = <<>> /\ UNCHANGED hist /\ StepL

\* the reader that stayed behind is taken up again (Resume): a silent step in front of its reader_start event
TrResume ==
  /\ More /\ Ev.ev = "reader_start" /\ parked.kind = "reader" /\ Ev.sid = parked.sid
  /\ ~(sess.kind \in {"reader", "writer", "closed"} /\ Ev.sid = sess.sid)
  /\ sess' = [parked EXCEPT !.resumed = TRUE] /\ parked' = NoSess /\ calls' = <<>>
  /\ UNCHANGED <<chk, hist, tid, l>>

\* rows() is called once more on the reader (ReadAgain): its counters, row numbers and items start afresh
TrAgain ==
  /\ More /\ Ev.ev = "again" /\ sess.kind = "reader" /\ Ev.sid = sess.sid
  /\ sess' = [sess EXCEPT !.ds = [rows |-> Ev.rows, fault |-> 0], !.started = FALSE, !.pos = 0, !.out = <<>>, !.acc = 0,
                          !.rej = 0, !.yielded = 0, !.exc = NoErr, !.resumed = TRUE, !.again = TRUE]
  /\ calls' = <<>> /\ UNCHANGED <<chk, hist>> /\ Step

Mine == sess.kind \in {"reader", "writer", "closed"} /\ Ev.sid = sess.sid

TrStart ==
  /\ More /\ Ev.ev = "reader_start" /\ Mine
  /\ ReaderStart
  /\ Ev.sizes = Sizes(chk')                                                   \* C08: reset before the first row
  /\ Ev.acc = 0 /\ Ev.rej = 0
  /\ Step

\* the error the specification computes for the row about to be processed
Computed == RowVerdict(chk, sess.ds.rows[sess.pos + 1], sess.pos + 1, RegisterOnReach)[2]
ErrorMatches(e) == /\ Ev.error.cls = e.cls
                   /\ Ev.error.line + 1 = e.line                              \* C04: located at this row
                   /\ Ev.error.cell + 1 = e.cell                              \* C04: first offending column
                   /\ Ev.error.see + 1 = e.see                                \* C05: refers back to the first occurrence

TrRow ==
  /\ More /\ Ev.ev = "row" /\ Mine /\ sess.kind = "reader"
  /\ Ev.n = sess.pos + 1                                                      \* every row accounted for, in order
  /\ Ev.line = sess.pos                                                       \* C04: header rows count
  /\ ReaderRow
  /\ CASE Ev.kind = "header"   -> Ev.n <= Header /\ sess'.out = sess.out      \* C07
       [] Ev.kind = "accepted" -> /\ Ev.n > Header
                                  /\ Ev.validated = InWindow(sess.limit, Ev.n) \* C07: the limit counts raw rows
                                  /\ sess'.out = Append(sess.out, ItemRow(Ev.n))
       [] Ev.kind = "rejected" -> /\ InWindow(sess.limit, Ev.n)
                                  /\ ErrorMatches(Computed)
                                  /\ sess'.out # Append(sess.out, ItemRow(Ev.n))
  /\ Ev.acc = sess'.acc /\ Ev.rej = sess'.rej                                 \* C06
  /\ Ev.sizes = Sizes(chk')                                                   \* C05: who registered what
  /\ Step

\* the `with` block is left; a raised row error must be the one the specification computed
TrExit ==
  /\ More /\ Ev.ev = "exit" /\ Mine
  /\ (sess.kind = "reader" /\ Ev.exc \in {"DataError", "FieldValueError", "CheckError"}) => sess.exc.cls = Ev.exc
  /\ UNCHANGED <<chk, sess, hist, calls>> /\ Step

\* BaseValidator.close: end-of-data checks in declaration order, the first failure raises
TrClose ==
  /\ More /\ Ev.ev = "close" /\ Mine /\ sess.kind \in {"reader", "writer"}
  /\ Ev.sizes = Sizes(chk)                                                    \* closing does not touch the bookkeeping
  /\ Ev.failed = EndFailure(chk)                                              \* C05: end-of-data verdict
  /\ sess' = [sess EXCEPT !.kind = "closed"]
  /\ UNCHANGED <<chk, hist, calls>> /\ Step

\* Writer.write_row (write_begin paired with write_end by the preprocessing: emitted = an end followed)
TrWrite ==
  /\ More /\ Ev.ev = "write" /\ Mine /\ sess.kind = "writer"
  /\ Ev.line = sess.line                                                      \* C14: a rejected row does not advance
  /\ WriterRow
  /\ Ev.emitted = (LastOf(sess'.out)[1] = "row")                              \* C14: emitted iff accepted
  /\ IF Ev.sizes = <<>> THEN TRUE ELSE Ev.sizes = Sizes(chk')                 \* (not logged if the writer was dropped)
  /\ Step

TNext == TrOpen \/ TrResume \/ TrAgain \/ TrStart \/ TrRow \/ TrExit \/ TrClose \/ TrWrite
TSpec == TInit /\ [][TNext]_tvars

\* one line per reached position; the harness accepts a trace iff position Len+1 was reached
Progress == PrintT(<<"AT", ToJson(<<tid, l>>)>>)
=============================================================================
