---------------------------- MODULE FixedReader ----------------------------
(***************************************************************************)
(* Fixed-width reading (property C13): a character-level transcription of  *)
(* cutplace.rowio.fixed_rows (rowio.py:286-424) with its one-character     *)
(* push-back, and the language it is meant to accept, stated directly.     *)
(*                                                                         *)
(*   ReadField       rowio.py:373-416  read one field (possibly starting   *)
(*                                     with the pushed-back character)     *)
(*   SkipDelimiter   rowio.py:314-359  skip and validate the line delimiter*)
(*                   and 417-421       then emit the row                   *)
(*                                                                         *)
(* The input is chosen first (so that every text is one behaviour), then   *)
(* the reader runs on it.  Two ways of choosing it:                        *)
(*   Feed            every string up to MaxLen over Chars (exhaustive)     *)
(*   Build + Mutate  a well-formed file of records and permitted           *)
(*                   delimiters, then one character deleted, inserted or   *)
(*                   replaced at some offset (simulation, longer files)    *)
(* Width list and delimiter setting are chosen in Init, so one TLC run     *)
(* covers their whole product.                                             *)
(***************************************************************************)
EXTENDS Integers, Sequences, FiniteSets, TLC, Json

CONSTANTS WidthLists,   \* set of sequences of field widths, e.g. {<<1>>, <<2, 1>>}
          Delims,       \* subset of {"none", "lf", "cr", "crlf", "any"}
          MaxLen,       \* Feed: inputs of length 0..MaxLen
          MaxRecords,   \* Build: well-formed files of up to MaxRecords records (0 = Feed only)
          Mutants       \* BOOLEAN: Build is followed by exactly one mutation
Chars == {"a", "b", "CR", "LF"}

VARIABLES widths, delim,  \* chosen in Init
          input,          \* the whole text (history)
          mutated,        \* Build mode: the one mutation has been applied
          rest,           \* unread part
          unread,         \* <<>> or <<c>> : unread_character_after_line_delimiter
          phase,          \* "feed" | "field" | "delim" | "done" | "error"
          fieldIdx, row, rows
vars == <<widths, delim, input, mutated, rest, unread, phase, fieldIdx, row, rows>>

Take(s, n) == SubSeq(s, 1, IF n <= Len(s) THEN n ELSE Len(s))
Drop(s, n) == IF n >= Len(s) THEN <<>> ELSE SubSeq(s, n + 1, Len(s))
NF == Len(widths)
RECURSIVE SumFrom(_, _)
SumFrom(w, i) == IF i > Len(w) THEN 0 ELSE w[i] + SumFrom(w, i + 1)
W == SumFrom(widths, 1)

Init == /\ widths \in WidthLists /\ delim \in Delims
        /\ input = <<>> /\ mutated = FALSE /\ rest = <<>> /\ unread = <<>> /\ phase = "feed"
        /\ fieldIdx = 1 /\ row = <<>> /\ rows = <<>>

Same == UNCHANGED <<widths, delim>>

(* ------------------------------ choosing the input ------------------------------ *)
Feed == /\ phase = "feed" /\ MaxRecords = 0 /\ Len(input) < MaxLen
        /\ \E c \in Chars : input' = Append(input, c)
        /\ Same /\ UNCHANGED <<mutated, rest, unread, phase, fieldIdx, row, rows>>

\* a record of W characters: all "a", or "a" and "b" alternating (the reader never looks at them)
Rec(k) == [i \in 1..W |-> IF k = 1 THEN "a" ELSE IF i % 2 = 1 THEN "a" ELSE "b"]
DelimTexts == CASE delim = "none" -> {<<>>}
                [] delim = "lf"   -> {<<"LF">>}
                [] delim = "cr"   -> {<<"CR">>}
                [] delim = "crlf" -> {<<"CR", "LF">>}
                [] delim = "any"  -> {<<"LF">>, <<"CR">>, <<"CR", "LF">>}
Build == /\ phase = "feed" /\ MaxRecords > 0 /\ ~mutated /\ Len(input) < MaxRecords * (W + 2)
         /\ \E k \in 1..2, d \in DelimTexts : input' = input \o Rec(k) \o d
         /\ Same /\ UNCHANGED <<mutated, rest, unread, phase, fieldIdx, row, rows>>
\* the final delimiter is optional
DropFinal == /\ phase = "feed" /\ MaxRecords > 0 /\ ~mutated /\ input # <<>>
             /\ \E d \in DelimTexts : d # <<>> /\ Len(input) >= Len(d) /\ SubSeq(input, Len(input) - Len(d) + 1, Len(input)) = d
                                       /\ input' = SubSeq(input, 1, Len(input) - Len(d))
             /\ mutated' = (~Mutants)   \* without mutants, this ends the building
             /\ Same /\ UNCHANGED <<rest, unread, phase, fieldIdx, row, rows>>
Mutate == /\ phase = "feed" /\ MaxRecords > 0 /\ Mutants /\ ~mutated /\ input # <<>>
          /\ \E o \in 1..Len(input) :
               \/ input' = SubSeq(input, 1, o - 1) \o SubSeq(input, o + 1, Len(input))                      \* delete
               \/ \E c \in Chars : input' = SubSeq(input, 1, o - 1) \o <<c>> \o SubSeq(input, o, Len(input)) \* insert
               \/ \E c \in Chars \ {input[o]} : input' = [input EXCEPT ![o] = c]                             \* replace
          /\ mutated' = TRUE
          /\ Same /\ UNCHANGED <<rest, unread, phase, fieldIdx, row, rows>>

StartReading == /\ phase = "feed" /\ (MaxRecords > 0 /\ Mutants => mutated)
                /\ phase' = "field" /\ rest' = input
                /\ Same /\ UNCHANGED <<input, mutated, unread, fieldIdx, row, rows>>

(* ------------------------------ the reader ------------------------------ *)
\* rowio.py:373-416 : read one field
ReadField ==
  /\ phase = "field"
  /\ LET w == widths[fieldIdx]
         item == IF unread = <<>> THEN Take(rest, w) ELSE unread \o Take(rest, w - 1)
         rest2 == IF unread = <<>> THEN Drop(rest, w) ELSE Drop(rest, w - 1)
     IN /\ unread' = <<>> /\ rest' = rest2
        /\ IF Len(item) = 0
           THEN IF fieldIdx > 1 THEN phase' = "error" /\ UNCHANGED <<fieldIdx, row, rows>>     \* "after field ... characters must follow"
                ELSE phase' = "done" /\ UNCHANGED <<fieldIdx, row, rows>>                      \* end of input reached
           ELSE IF Len(item) = w
           THEN IF fieldIdx = NF
                THEN /\ row' = Append(row, item) /\ phase' = "delim" /\ UNCHANGED <<fieldIdx, rows>>
                ELSE /\ row' = Append(row, item) /\ fieldIdx' = fieldIdx + 1 /\ UNCHANGED <<phase, rows>>
           ELSE phase' = "error" /\ UNCHANGED <<fieldIdx, row, rows>>                          \* "need %d characters but found only %d"
  /\ Same /\ UNCHANGED <<input, mutated>>

\* rowio.py:314-359 and 417-421 : skip the line delimiter, then emit the row
EmitAnd(nextPhase) == rows' = Append(rows, row) /\ row' = <<>> /\ fieldIdx' = 1 /\ phase' = nextPhase
Stuck == phase' = "error" /\ UNCHANGED <<rest, unread, fieldIdx, row, rows>>
SkipDelimiter ==
  /\ phase = "delim" /\ Same /\ UNCHANGED <<input, mutated>>
  /\ CASE delim = "none" -> EmitAnd("field") /\ UNCHANGED <<rest, unread>>
       [] delim = "crlf" ->
            LET d == Take(rest, 2) IN
            IF d = <<>> THEN EmitAnd("done") /\ UNCHANGED <<rest, unread>>
            ELSE IF d = <<"CR", "LF">> THEN EmitAnd("field") /\ rest' = Drop(rest, 2) /\ UNCHANGED unread
            ELSE Stuck
       [] delim \in {"lf", "cr"} ->
            LET d == Take(rest, 1) IN
            IF d = <<>> THEN EmitAnd("done") /\ UNCHANGED <<rest, unread>>
            ELSE IF d = <<IF delim = "lf" THEN "LF" ELSE "CR">> THEN EmitAnd("field") /\ rest' = Drop(rest, 1) /\ UNCHANGED unread
            ELSE Stuck
       [] delim = "any" ->
            LET d == Take(rest, 1) IN
            IF d = <<>> THEN EmitAnd("done") /\ UNCHANGED <<rest, unread>>
            ELSE IF d = <<"CR">> THEN
                 LET a == Take(Drop(rest, 1), 1) IN
                 IF a = <<"LF">> THEN EmitAnd("field") /\ rest' = Drop(rest, 2) /\ UNCHANGED unread
                 ELSE IF a = <<>> THEN EmitAnd("done") /\ rest' = <<>> /\ UNCHANGED unread
                 ELSE EmitAnd("field") /\ rest' = Drop(rest, 2) /\ unread' = a               \* push back
            ELSE IF d = <<"LF">> THEN EmitAnd("field") /\ rest' = Drop(rest, 1) /\ UNCHANGED unread
            ELSE Stuck

Next == Feed \/ Build \/ DropFinal \/ Mutate \/ StartReading \/ ReadField \/ SkipDelimiter
Spec == Init /\ [][Next]_vars

(* ---------------- the language, stated directly (C13) ---------------- *)
RECURSIVE SplitRec(_, _)
SplitRec(rec, i) == IF i > NF THEN <<>> ELSE <<Take(rec, widths[i])>> \o SplitRec(Drop(rec, widths[i]), i + 1)
\* length of the delimiter permitted by the setting at the start of `after`; 0 at the end of the input; -1 if none fits
DelimLen(after) ==
  IF after = <<>> THEN 0
  ELSE CASE delim = "none" -> 0
         [] delim = "lf"   -> IF Take(after, 1) = <<"LF">> THEN 1 ELSE -1
         [] delim = "cr"   -> IF Take(after, 1) = <<"CR">> THEN 1 ELSE -1
         [] delim = "crlf" -> IF Take(after, 2) = <<"CR", "LF">> THEN 2 ELSE -1
         [] delim = "any"  -> IF Take(after, 2) = <<"CR", "LF">> THEN 2
                              ELSE IF Take(after, 1) \in {<<"CR">>, <<"LF">>} THEN 1 ELSE -1
\* result: <<"ok", rows>> or <<"err">>
RECURSIVE Parse(_)
Parse(t) ==
  IF t = <<>> THEN <<"ok", <<>>>>
  ELSE IF Len(t) < W THEN <<"err">>
  ELSE LET rec == SplitRec(Take(t, W), 1)
           after == Drop(t, W)
           dl == DelimLen(after)
       IN IF dl = -1 THEN <<"err">>
          ELSE LET tail == Parse(Drop(after, dl)) IN
               IF tail[1] = "err" THEN tail ELSE <<"ok", <<rec>> \o tail[2]>>

LosslessAndAligned ==
  /\ phase = "done"  => Parse(input) = <<"ok", rows>>
  /\ phase = "error" => Parse(input)[1] = "err"
  /\ \A i \in 1..Len(rows) : \A j \in 1..NF : Len(rows[i][j]) = widths[j]
\* at every record boundary: what has been consumed so far is exactly the rows emitted so far, interleaved with
\* permitted delimiters (nothing skipped, nothing repaired)
ConsumedSoFar ==
  (phase = "field" /\ fieldIdx = 1) =>
    Parse(SubSeq(input, 1, Len(input) - Len(rest) - Len(unread))) = <<"ok", rows>>
\* a well-formed file built by Build (no mutation) is always accepted
BuiltIsAccepted == (MaxRecords > 0 /\ ~Mutants /\ phase = "error") => FALSE
TypeOK == phase \in {"feed", "field", "delim", "done", "error"} /\ Len(unread) <= 1

Emit == (phase \in {"done", "error"}) =>
   PrintT(<<"VEC", ToJson([input |-> input, widths |-> widths, delim |-> delim, status |-> phase, rows |-> rows,
                            parse |-> Parse(input)])>>)
=============================================================================
