---------------------------- MODULE MCSessionHist ----------------------------
(* data sets sharing key values, for histories on one CID (C08) *)
EXTENDS MCSessionBase
CONSTANT MaxRows
TheTables == { T(<<R(1,1), R(2,2)>>),                    \* clean; fails the distinct count at the end
               T(<<R(1,1), Bad1, R(1,2)>>),              \* field error, then a duplicate of row 1
               T(<<R(2,1), R(3,1), Short>>),             \* shares key 2 with the first one
               F(<<R(1,2), R(2,2)>>, 2) }                \* container fault before row 2
=============================================================================
