------------------------------- MODULE Fields -------------------------------
(***************************************************************************)
(* One cell through one field: the guard pipeline every field type shares  *)
(* (property C03), cutplace/fields.py:242-260, AbstractFieldFormat.validated*)
(*                                                                         *)
(*   GuardChars   validate_characters  fields.py:155-181                   *)
(*   GuardEmpty   validate_empty       fields.py:183-194                   *)
(*   GuardLength  validate_length      fields.py:196-222                   *)
(*   Strip        blanks removed for fixed-width data   fields.py:252-255  *)
(*   Value        validated_value (the type's hook) or the empty value     *)
(*                                                                         *)
(* A cell is a sequence over character classes: "b" blank, "a" some other  *)
(* allowed character, "d" a character outside the data format's allowed-   *)
(* characters range.  What the type's value hook says about the (stripped) *)
(* cell is an input of the model (`hook`): C03 is about the guards,        *)
(* "whatever the type and rule would otherwise say"; the hooks themselves  *)
(* are property C02.                                                       *)
(*                                                                         *)
(* Deviation switch StripBeforeEmptyGuard: TRUE (shipped) -- in fixed-width*)
(* data a blanks-only cell counts as empty for the emptiness guard; FALSE  *)
(* -- pinned code: the emptiness guard sees the unstripped cell (D5).      *)
(***************************************************************************)
EXTENDS Integers, Sequences, FiniteSets, TLC, Json

CONSTANTS Formats,               \* subset of {"delimited", "fixed", "excel", "ods"}
          LengthDecls,           \* set of length declarations: sequences of items <<lo, hi>>, a limit is <<>> or <<n>>
          FixedWidths,           \* widths used for fixed-width fields
          MaxCell,               \* cells of length 0..MaxCell
          StripBeforeEmptyGuard,
          BlankCellSkipsCharGuard,  \* TRUE (shipped): a fixed-width cell of blanks only is an empty cell, whatever the allowed
                                    \* characters are; FALSE: pinned code, its blanks are checked like data (D39)
          StripsBlanksOnly          \* TRUE (shipped): only blanks are padding of fixed-width data; FALSE: pinned code strips
                                    \* every kind of white space, a cell of tabs counts as empty (D40)

None == <<>>
\* "t": white space that is no blank (a tab): data, not padding; its code point lies below every allowed-characters range used
Classes == {"b", "a", "d", "t"}
Cells == UNION {[1..n -> Classes] : n \in 0..MaxCell}

\* how the data format restricts characters: "none" -- no allowed-characters range; "range" -- one item, the
\* disallowed character lies above everything allowed; "gaps" -- several items, the disallowed character lies
\* between allowed ones (its code point is above the blank's and below the other allowed character's)
\* "noblank" -- one item that starts above the blank (33...): the blank itself is not an allowed character
Restrictions == {"none", "range", "gaps", "noblank"}
Restricted(f) == f.restricted # "none"

VARIABLES fld,      \* [fmt, emptyAllowed, length (declaration), restricted (one of Restrictions)]
          cell, hook,
          stage,    \* "chars" | "empty" | "length" | "strip" | "value" | "done"
          value,    \* the cell as the later stages see it (stripped for fixed-width data)
          outcome,  \* <<>> while running; <<"accept", "empty" | "native">> or <<"reject", reason>>
          hookCalls
vars == <<fld, cell, hook, stage, value, outcome, hookCalls>>

(* ------------------------------ helpers ------------------------------ *)
InItem(n, it) == (it[1] = None \/ it[1][1] <= n) /\ (it[2] = None \/ n <= it[2][1])
InLength(n, decl) == decl = <<>> \/ \E i \in 1..Len(decl) : InItem(n, decl[i])
LowerLimit(decl) == decl[1][1][1]      \* fixed-width declarations are one exact item
RECURSIVE StripLeft(_)
Padding == IF StripsBlanksOnly THEN {"b"} ELSE {"b", "t"}
StripLeft(s) == IF s # <<>> /\ Head(s) \in Padding THEN StripLeft(Tail(s)) ELSE s
RECURSIVE StripRight(_)
StripRight(s) == IF s # <<>> /\ s[Len(s)] \in Padding THEN StripRight(SubSeq(s, 1, Len(s) - 1)) ELSE s
Stripped(s) == StripRight(StripLeft(s))
AllBlank(s) == \A i \in 1..Len(s) : s[i] = "b"
\* which characters the restriction r excludes
Excluded(r, ch) == r # "none" /\ (ch \in {"d", "t"} \/ (ch = "b" /\ r = "noblank"))
HasDisallowed(f, s) == \E i \in 1..Len(s) : Excluded(f.restricted, s[i])

Fields == {[fmt |-> f, emptyAllowed |-> e, length |-> l, restricted |-> r] :
             f \in Formats \ {"fixed"}, e \in BOOLEAN, l \in LengthDecls, r \in Restrictions}
     \cup {[fmt |-> "fixed", emptyAllowed |-> e, length |-> <<<<<<w>>, <<w>>>>>>, restricted |-> r] :
             e \in BOOLEAN, w \in FixedWidths, r \in Restrictions}

Init == /\ fld \in Fields /\ cell \in Cells /\ hook \in BOOLEAN
        /\ stage = "chars" /\ value = cell /\ outcome = <<>> /\ hookCalls = 0

Reject(why) == outcome' = <<"reject", why>> /\ stage' = "done"
Keep == UNCHANGED <<fld, cell, hook>>

\* fields.py:155-181
GuardChars ==
  /\ stage = "chars" /\ Keep /\ UNCHANGED <<value, hookCalls>>
  /\ IF HasDisallowed(fld, cell) /\ ~(BlankCellSkipsCharGuard /\ fld.fmt = "fixed" /\ AllBlank(cell)) THEN Reject("character")
     ELSE stage' = (IF StripBeforeEmptyGuard THEN "strip" ELSE "empty") /\ UNCHANGED outcome
\* fields.py:252-255 (its place in the pipeline is what the switch decides)
Strip ==
  /\ stage = "strip" /\ Keep /\ UNCHANGED <<outcome, hookCalls>>
  /\ value' = IF fld.fmt = "fixed" THEN Stripped(cell) ELSE cell
  /\ stage' = IF StripBeforeEmptyGuard THEN "empty" ELSE "value"
\* fields.py:183-194
GuardEmpty ==
  /\ stage = "empty" /\ Keep /\ UNCHANGED <<value, hookCalls>>
  /\ IF ~fld.emptyAllowed /\ value = <<>> THEN Reject("empty")
     ELSE stage' = "length" /\ UNCHANGED outcome
\* fields.py:196-222 (always on the unstripped cell; an allowed empty cell is exempt)
GuardLength ==
  /\ stage = "length" /\ Keep /\ UNCHANGED <<value, hookCalls>>
  /\ IF fld.emptyAllowed /\ cell = <<>> THEN stage' = (IF StripBeforeEmptyGuard THEN "value" ELSE "strip") /\ UNCHANGED outcome
     ELSE IF fld.fmt = "fixed"
          THEN IF Len(cell) > LowerLimit(fld.length) THEN Reject("length")
               ELSE stage' = (IF StripBeforeEmptyGuard THEN "value" ELSE "strip") /\ UNCHANGED outcome
          ELSE IF ~InLength(Len(cell), fld.length) THEN Reject("length")
               ELSE stage' = (IF StripBeforeEmptyGuard THEN "value" ELSE "strip") /\ UNCHANGED outcome
\* fields.py:256-259
Value ==
  /\ stage = "value" /\ Keep /\ UNCHANGED value
  /\ stage' = "done"
  /\ IF value = <<>> THEN outcome' = <<"accept", "empty">> /\ UNCHANGED hookCalls
     ELSE /\ hookCalls' = hookCalls + 1
          /\ outcome' = IF hook THEN <<"accept", "native">> ELSE <<"reject", "value">>
Next == GuardChars \/ Strip \/ GuardEmpty \/ GuardLength \/ Value
Spec == Init /\ [][Next]_vars

(* ------------------------------ C03, from the property text ------------------------------ *)
IsEmpty(f, c) == IF f.fmt = "fixed" THEN AllBlank(c) ELSE c = <<>>            \* "a cell consisting only of blanks"
LengthOutside(f, c) == IF f.fmt = "fixed" THEN Len(c) > LowerLimit(f.length) ELSE ~InLength(Len(c), f.length)
\* cases the property text does not decide: a blanks-only fixed-width cell that is longer than the field
Undecided(f, c) == f.fmt = "fixed" /\ IsEmpty(f, c) /\ Len(c) > LowerLimit(f.length)
GuardsHold ==
  (stage = "done" /\ ~Undecided(fld, cell)) =>
    /\ IsEmpty(fld, cell) =>
         /\ (outcome[1] = "accept") <=> fld.emptyAllowed
         /\ outcome[1] = "accept" => outcome[2] = "empty"
         /\ hookCalls = 0                                              \* the rule is not consulted
    /\ (~IsEmpty(fld, cell) /\ (LengthOutside(fld, cell) \/ HasDisallowed(fld, cell))) =>
         /\ outcome[1] = "reject"                                      \* whatever the type and rule would say
         /\ hookCalls = 0
    /\ (~IsEmpty(fld, cell) /\ ~LengthOutside(fld, cell) /\ ~HasDisallowed(fld, cell)) =>
         /\ hookCalls = 1
         /\ (outcome[1] = "accept") <=> hook
         /\ outcome[1] = "accept" => outcome[2] = "native"
(* ------------------------------ the writer's view (C14) ------------------------------ *)
\* validio.py, Writer.write_row / _padded_fixed_row: a fixed-width value shorter than its field is written right-padded with
\* blanks. What is written is what a reader will see: a writer has to judge a value the way the reader judges Pad(value),
\* or its output does not validate again (harness/c14.py looks the verdict of the padded cell up among the behaviours).
Pad(f, c) == IF f.fmt = "fixed" /\ Len(c) < LowerLimit(f.length)
             THEN c \o [i \in 1..(LowerLimit(f.length) - Len(c)) |-> "b"] ELSE c
TypeOK == stage \in {"chars", "empty", "length", "strip", "value", "done"} /\ hookCalls \in 0..1
Emit == stage = "done" =>
   PrintT(<<"VEC", ToJson([fld |-> fld, cell |-> cell, hook |-> hook, outcome |-> outcome, hookCalls |-> hookCalls,
                            undecided |-> Undecided(fld, cell), padded |-> Pad(fld, cell)])>>)
=============================================================================
