--------------------------------- MODULE Ods ---------------------------------
(***************************************************************************)
(* Reading ODS sheets (property C15): cutplace/rowio.py:211-283, ods_rows. *)
(*                                                                         *)
(* A document is a tree: sheets -> row elements with a row repeat count -> *)
(* cell elements with a column repeat count -> paragraphs -> pieces        *)
(*     txt(chars) | s(count) | tab | br | span(pieces)                     *)
(* Encode(table, features) writes a logical table of text cells as such a  *)
(* tree, with every optional feature of the file format switched on or off *)
(* (column runs, row runs, text:s for single blanks, spans, several        *)
(* paragraphs, cell comments); the harness only serialises the tree to XML and zips it.   *)
(* The decoder is the machine of ods_rows: one action per table:table-row  *)
(* element.                                                                *)
(*                                                                         *)
(* Deviation switches:                                                     *)
(*   CollectAllText    TRUE (shipped): a cell's text is everything its     *)
(*                     paragraphs hold; FALSE: pinned code, only the text  *)
(*                     in front of the first child element of the first    *)
(*                     paragraph (D4a)                                     *)
(*   ExpandRowRepeats  TRUE: table:number-rows-repeated is honoured;       *)
(*                     FALSE: pinned code, a run of equal rows is returned *)
(*                     once (D4b, known finding)                           *)
(*   DescendsIntoRowContainers  TRUE (shipped): row elements wrapped in    *)
(*                     table:table-header-rows ("rows to repeat") or       *)
(*                     table:table-row-group (grouped rows) belong to the  *)
(*                     sheet; FALSE: pinned code, only direct children of  *)
(*                     table:table are read (D35)                          *)
(*   ReadsCoveredCells TRUE (shipped): the covered cells of a merged range *)
(*                     are (empty) cells of their row; FALSE: pinned code  *)
(*                     skips them, later cells shift to the left (D36)     *)
(***************************************************************************)
EXTENDS Integers, Sequences, FiniteSets, TLC, Json

CONSTANTS Chars,            \* text alphabet, e.g. {"a", "sp", "tab", "nl", "lt"}
          MaxRows, MaxCells, MaxLen,
          FeatureSets,      \* set of subsets of {"colruns", "rowruns", "selems", "spans", "paras", "notes", "rowgroups", "merged"}
          Sheets,           \* set of <<number of sheets, requested sheet>>
          CollectAllText, ExpandRowRepeats,
          DescendsIntoRowContainers,   \* TRUE: rows inside table:table-header-rows / table:table-row-group are rows of the sheet
          ReadsCoveredCells            \* TRUE: table:covered-table-cell (the hidden part of a merged range) is a cell of its row

SeqsUpTo(S, n) == UNION {[1..k -> S] : k \in 0..n}
Texts == SeqsUpTo(Chars, MaxLen)

(* ------------------------------ encoding ------------------------------ *)
Txt(cs) == [k |-> "txt", cs |-> cs, n |-> 0, sub |-> <<>>]
S(n) == [k |-> "s", cs |-> <<>>, n |-> n, sub |-> <<>>]
Tab == [k |-> "tab", cs |-> <<>>, n |-> 0, sub |-> <<>>]
Br == [k |-> "br", cs |-> <<>>, n |-> 0, sub |-> <<>>]
Span(ps) == [k |-> "span", cs |-> <<>>, n |-> 0, sub |-> ps]

\* length of the run of blanks starting at position i
RECURSIVE BlankRun(_, _)
BlankRun(t, i) == IF i > Len(t) \/ t[i] # "sp" THEN 0 ELSE 1 + BlankRun(t, i + 1)
\* pieces of one paragraph (no "nl" inside unless it becomes a line-break element)
RECURSIVE Pieces(_, _, _)
Pieces(t, i, f) ==
  IF i > Len(t) THEN <<>>
  ELSE IF t[i] = "sp" THEN
         LET n == BlankRun(t, i)
             edge == i = 1 \/ i + n > Len(t)          \* leading / trailing white space would be collapsed
         IN (IF edge \/ "selems" \in f THEN <<S(n)>> ELSE IF n = 1 THEN <<Txt(<<"sp">>)>> ELSE <<Txt(<<"sp">>), S(n - 1)>>)
            \o Pieces(t, i + n, f)
  ELSE IF t[i] = "tab" THEN <<Tab>> \o Pieces(t, i + 1, f)
  ELSE IF t[i] = "nl" THEN <<Br>> \o Pieces(t, i + 1, f)
  ELSE <<Txt(<<t[i]>>)>> \o Pieces(t, i + 1, f)
\* adjacent text pieces are one text node in XML
RECURSIVE Merge(_)
Merge(ps) == IF Len(ps) < 2 THEN ps
             ELSE IF ps[1].k = "txt" /\ ps[2].k = "txt" THEN Merge(<<Txt(ps[1].cs \o ps[2].cs)>> \o SubSeq(ps, 3, Len(ps)))
             ELSE <<ps[1]>> \o Merge(Tail(ps))
\* "spans": part of the paragraph sits in text:span elements. With three pieces or more the span is in the middle -- it has
\* children of its own (a nested span from the fourth piece on) AND text or elements behind its end tag, which belong
\* behind everything the span holds
WithSpan(ps, f) == IF "spans" \notin f \/ ps = <<>> THEN ps
                   ELSE IF Len(ps) = 1 THEN <<Span(ps)>>
                   ELSE IF Len(ps) = 2 THEN <<ps[1], Span(Tail(ps))>>
                   ELSE <<ps[1], Span(<<ps[2]>> \o (IF Len(ps) >= 4 THEN <<Span(SubSeq(ps, 3, Len(ps) - 1))>> ELSE <<>>)), ps[Len(ps)]>>
\* split a text at "nl"
RECURSIVE SplitNl(_, _)
SplitNl(t, cur) == IF t = <<>> THEN <<cur>> ELSE IF Head(t) = "nl" THEN <<cur>> \o SplitNl(Tail(t), <<>>) ELSE SplitNl(Tail(t), Append(cur, Head(t)))
Paragraphs(t, f) ==
  IF t = <<>> THEN <<>>                                                   \* an empty cell has no paragraph
  ELSE IF "paras" \in f THEN [i \in 1..Len(SplitNl(t, <<>>)) |-> WithSpan(Merge(Pieces(SplitNl(t, <<>>)[i], 1, f)), f)]
  ELSE <<WithSpan(Merge(Pieces(t, 1, f)), f)>>
\* runs of equal neighbours: <<count, item>>
RECURSIVE Runs(_)
Runs(s) == IF s = <<>> THEN <<>>
           ELSE LET rest == Runs(Tail(s)) IN
                IF rest # <<>> /\ rest[1][2] = Head(s) THEN <<<<rest[1][1] + 1, Head(s)>>>> \o Tail(rest)
                ELSE <<<<1, Head(s)>>>> \o rest
Singles(s) == [i \in 1..Len(s) |-> <<1, s[i]>>]
EncodeRow(row, f) == LET groups == IF "colruns" \in f THEN Runs(row) ELSE Singles(row)
                     \* ("notes": every cell carries a comment -- an office:annotation element with a paragraph of its own, which is
                     \* not text of the cell)
                     \* ("merged": an empty cell right of a cell with text is the covered part of a merged range)
                     IN [i \in 1..Len(groups) |-> [rep |-> groups[i][1], paras |-> Paragraphs(groups[i][2], f), note |-> ("notes" \in f),
                                                   covered |-> ("merged" \in f /\ groups[i][2] = <<>> /\ i > 1 /\ groups[i - 1][2] # <<>>)]]
EncodeSheet(table, f) == LET groups == IF "rowruns" \in f THEN Runs(table) ELSE Singles(table)
                         \* ("rowgroups": the first row element sits in table:table-header-rows, the others in one
                         \* table:table-row-group)
                         IN [i \in 1..Len(groups) |-> [rep |-> groups[i][1], cells |-> EncodeRow(groups[i][2], f),
                                                       wrap |-> IF "rowgroups" \in f THEN (IF i = 1 THEN "header" ELSE "group") ELSE "none"]]

(* ------------------------------ what a cell element says ------------------------------ *)
Repeat(c, n) == [i \in 1..n |-> c]
RECURSIVE PieceText(_)
RECURSIVE PiecesText(_)
PieceText(p) == CASE p.k = "txt" -> p.cs [] p.k = "s" -> Repeat("sp", p.n) [] p.k = "tab" -> <<"tab">> [] p.k = "br" -> <<"nl">>
                  [] p.k = "span" -> PiecesText(p.sub)
PiecesText(ps) == IF ps = <<>> THEN <<>> ELSE PieceText(Head(ps)) \o PiecesText(Tail(ps))
RECURSIVE JoinParas(_)
JoinParas(paras) == IF paras = <<>> THEN <<>> ELSE IF Len(paras) = 1 THEN PiecesText(paras[1])
                    ELSE PiecesText(paras[1]) \o <<"nl">> \o JoinParas(Tail(paras))
\* pinned code: text_p.text of the first paragraph; "none" when there is no text in front of its first child
NoText == <<"<none>">>
CellText(cell) == IF CollectAllText THEN JoinParas(cell.paras)
                  ELSE IF cell.paras = <<>> THEN <<>>
                  ELSE IF cell.paras[1] # <<>> /\ cell.paras[1][1].k = "txt" THEN cell.paras[1][1].cs ELSE NoText

(* ------------------------------ the machine ------------------------------ *)
VARIABLES table, features, nsheets, wanted,   \* the case
          doc,                                \* encoded sheet (row elements) of the wanted sheet
          pos, rows, status                   \* decoder: row elements consumed, rows produced, "build"|"reading"|"done"|"nosheet"
vars == <<table, features, nsheets, wanted, doc, pos, rows, status>>

\* the table is chosen first, cell by cell (so that simulation can reach big tables), then encoded and decoded
Init == /\ table = <<>> /\ features \in FeatureSets
        /\ \E s \in Sheets : nsheets = s[1] /\ wanted = s[2]
        /\ doc = <<>> /\ pos = 0 /\ rows = <<>> /\ status = "build"
LastRow == table[Len(table)]
AddRow == /\ status = "build" /\ Len(table) < MaxRows
          /\ table' = Append(table, <<<<>>>>) /\ UNCHANGED <<features, nsheets, wanted, doc, pos, rows, status>>
AddCell == /\ status = "build" /\ table # <<>> /\ Len(LastRow) < MaxCells
           /\ table' = [table EXCEPT ![Len(table)] = Append(@, <<>>)] /\ UNCHANGED <<features, nsheets, wanted, doc, pos, rows, status>>
AddChar == /\ status = "build" /\ table # <<>> /\ Len(LastRow[Len(LastRow)]) < MaxLen
           /\ \E c \in Chars : table' = [table EXCEPT ![Len(table)][Len(LastRow)] = Append(@, c)]
           /\ UNCHANGED <<features, nsheets, wanted, doc, pos, rows, status>>
\* repeat the last row (so that simulation meets runs of equal rows)
CopyRow == /\ status = "build" /\ table # <<>> /\ Len(table) < MaxRows
           /\ table' = Append(table, LastRow) /\ UNCHANGED <<features, nsheets, wanted, doc, pos, rows, status>>
Start == /\ status = "build"
         /\ doc' = EncodeSheet(table, features)
         /\ status' = IF wanted > nsheets THEN "nosheet" ELSE "reading"     \* rowio.py:251-254
         /\ UNCHANGED <<table, features, nsheets, wanted, pos, rows>>
Case == UNCHANGED <<table, features, nsheets, wanted, doc>>
RECURSIVE ExpandCells(_)
ExpandCells(cells) == IF cells = <<>> THEN <<>>
                      ELSE (IF Head(cells).covered /\ ~ReadsCoveredCells THEN <<>> ELSE Repeat(CellText(Head(cells)), Head(cells).rep))
                           \o ExpandCells(Tail(cells))
\* rowio.py:259-283, one table:table-row element
DecodeRow ==
  /\ status = "reading" /\ pos < Len(doc) /\ Case
  /\ LET el == doc[pos + 1]
         row == ExpandCells(el.cells)
     IN rows' = IF el.wrap # "none" /\ ~DescendsIntoRowContainers THEN rows
                ELSE rows \o Repeat(row, IF ExpandRowRepeats THEN el.rep ELSE 1)
  /\ pos' = pos + 1 /\ UNCHANGED status
Finish == /\ status = "reading" /\ pos = Len(doc) /\ status' = "done" /\ Case /\ UNCHANGED <<pos, rows>>
Next == AddRow \/ AddCell \/ AddChar \/ CopyRow \/ Start \/ DecodeRow \/ Finish
Spec == Init /\ [][Next]_vars

(* ------------------------------ C15 ------------------------------ *)
ReadsTheLogicalTable == status = "done" => rows = table
MissingSheetIsRefused == status # "build" => ((wanted > nsheets) <=> (status = "nosheet"))
TypeOK == status \in {"build", "reading", "done", "nosheet"}
Emit == status \in {"done", "nosheet"} =>
   PrintT(<<"VEC", ToJson([table |-> table, features |-> features, nsheets |-> nsheets, wanted |-> wanted, doc |-> doc,
                            status |-> status, rows |-> rows])>>)
=============================================================================
