SPECIFICATION Spec
CONSTANTS
  Dialects <- AllDialects
  Numbers <- Nums
  OtherFields <- Others
  MaxFields = 2
  TinyintNeedsNonNegative = FALSE
INVARIANT TypeOK
INVARIANT ColumnHoldsBothLimits
INVARIANT OneColumnPerFieldInOrder
INVARIANT Emit
CHECK_DEADLOCK FALSE
