------------------------------- MODULE MCExcel -------------------------------
EXTENDS Excel
Str(t) == [k |-> "string", text |-> t]
Whole(neg, ds) == [k |-> "whole", neg |-> neg, digits |-> ds]
Dy(neg, n, e) == [k |-> "dyadic", neg |-> neg, num |-> n, exp |-> e]
\* boundary dates: first and last day of months around leap rules, the ends of the supported range
Dates == { SerialOfCivil(d[1], d[2], d[3]) : d \in
           { <<1900, 3, 1>>, <<1900, 12, 31>>, <<1901, 1, 1>>, <<1999, 12, 31>>, <<2000, 1, 1>>, <<2000, 2, 29>>, <<2000, 3, 1>>,
             <<2019, 2, 28>>, <<2019, 3, 1>>, <<2020, 2, 29>>, <<2020, 12, 31>>, <<2100, 2, 28>>, <<2100, 3, 1>>, <<2400, 2, 29>>,
             <<9999, 12, 31>>, <<2024, 4, 30>>, <<2024, 5, 1>>, <<1970, 1, 1>> } }
Seconds == {0, 1, 59, 60, 61, 3599, 3600, 3601, 43200, 86399}
Cells == { Str(<<"a">>), Str(<<"1", ".", "0">>), Str(<<" ", "x", " ">>), Str(<<>>), [k |-> "empty"] }
    \cup { Whole(FALSE, <<"0">>), Whole(FALSE, <<"7">>), Whole(TRUE, <<"4", "2">>), Whole(FALSE, <<"1", "0", "0", "0", "0", "0", "0">>),
           Whole(FALSE, <<"9", "0", "0", "7", "1", "9", "9", "2", "5", "4", "7", "4", "0", "9", "9", "2">>),
           Whole(TRUE, <<"9", "0", "0", "7", "1", "9", "9", "2", "5", "4", "7", "4", "0", "9", "9", "1">>),
           Whole(FALSE, <<"4", "2", "9", "4", "9", "6", "7", "2", "9", "6">>),
           \* numbers stored exactly like a cell of another kind: TRUE, the date 2020-02-29 (0, FALSE and 00:00:00, and
           \* 1/2 and 12:00:00, are in the pool anyway); the kind, not the stored value, decides the text
           Whole(FALSE, <<"1">>), Whole(FALSE, DigitsOf(SerialOfCivil(2020, 2, 29))) }
    \cup { Dy(FALSE, 1, 1), Dy(TRUE, 3, 2), Dy(FALSE, 5, 3), Dy(FALSE, 1, 4), Dy(FALSE, 123457, 3), Dy(TRUE, 98765, 4) }
    \cup { [k |-> "bool", b |-> TRUE], [k |-> "bool", b |-> FALSE] }
    \cup { [k |-> "date", serial |-> s] : s \in Dates }
    \cup { [k |-> "datetime", serial |-> SerialOfCivil(2020, 2, 29), sec |-> s] : s \in Seconds \ {0} }
    \cup { [k |-> "datetime", serial |-> SerialOfCivil(1999, 12, 31), sec |-> 86399] }
    \cup { [k |-> "time", sec |-> s] : s \in Seconds }
    \cup { [k |-> "datetimems", serial |-> SerialOfCivil(2020, 2, 29), sec |-> s, ms |-> m] : s \in {1, 3601}, m \in {250, 750} }
    \cup { [k |-> "timems", sec |-> s, ms |-> m] : s \in {0, 3601}, m \in {250, 750} }
FewCells == { Str(<<"a">>), [k |-> "empty"], Whole(FALSE, <<"7">>), Dy(FALSE, 1, 1), [k |-> "bool", b |-> TRUE],
              [k |-> "date", serial |-> SerialOfCivil(2020, 2, 29)], [k |-> "time", sec |-> 3601] }
OneSheet == {<<1, 1>>}
AllSheets == {<<n, k>> : n \in 1..3, k \in 1..4}
=============================================================================
