SPECIFICATION Spec
CONSTANTS
  Formats <- AllFormats
  Settings <- PairSettings
  MaxSettings = 3
INVARIANT TypeOK
INVARIANT DefaultsKept
INVARIANT NeverContradictory
INVARIANT Emit
PROPERTY RefusalIsFinal
CHECK_DEADLOCK FALSE
