SPECIFICATION Spec
CONSTANTS
  CellPool <- Cells
  MaxRows = 1
  MaxCols = 2
  SheetChoices <- OneSheet
  ReadsRequestedSheet = TRUE
INVARIANT TypeOK
INVARIANT ReadsTheRequestedSheet
INVARIANT DatesConsistent
INVARIANT Emit
CHECK_DEADLOCK FALSE
