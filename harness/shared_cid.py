"""
Two validators alive at the same time on one Cid (spec/SharedCid.tla): every interleaving TLC finds is executed on the real
code; what a validator reports must be what its table gives when it is read alone (C05 "of the same data set", C08).
The code keeps one bookkeeping per Cid: where the observation equals the prediction of the model of the code
(ChecksPerSession = FALSE) the known finding D45 is met, anything else is a violation.
"""
import io

from harness import core

ACTIONS = ["Create", "Row", "Finish"]


def _execute(vec):
    import cutplace
    from cutplace import errors, validio
    cid = cutplace.Cid()
    cid.read("cid", [["D", "Format", "delimited"], ["F", "k", "", "", "", "Integer", "0...9"], ["F", "rid"],
                     ["C", "k must be unique", "IsUnique", "k"]])
    tables = {"A": vec["tblA"], "B": vec["tblB"]}
    kinds = {"A": "reader", "B": vec["kindB"]}
    objects, iterators, positions = {}, {}, {"A": 0, "B": 0}
    out = {"A": [], "B": []}
    for step, session in vec["sched"]:
        rows = [["%d" % key, "%s%d" % (session.lower(), number)] for number, key in enumerate(tables[session], 1)]
        if step == "create":
            if kinds[session] == "reader":
                text = "".join("%s,%s\r\n" % tuple(row) for row in rows)
                objects[session] = validio.Reader(cid, io.StringIO(text, newline=""), on_error="yield")
                iterators[session] = objects[session].rows()
            else:
                objects[session] = validio.Writer(cid, io.StringIO(newline=""))
        elif step == "row":
            if kinds[session] == "reader":
                item = next(iterators[session])
                verdict = "dup" if isinstance(item, errors.CheckError) else ("ok" if isinstance(item, list) else repr(item))
            else:
                try:
                    objects[session].write_row(rows[positions[session]])
                    verdict = "ok"
                except errors.CheckError:
                    verdict = "dup"
            positions[session] += 1
            out[session].append(verdict)
        elif step == "end" and kinds[session] == "reader":
            next(iterators[session], None)
    return out


def _job(vec):
    try:
        out = _execute(vec)
    except Exception as error:  # noqa
        return "crash", "%s: %s" % (type(error).__name__, error)
    if out["A"] == vec["aloneA"] and out["B"] == vec["aloneB"]:
        return "alone", None
    what = "session A (reader) over keys %s and session B (%s) over keys %s, steps %s: A reports %s and B reports %s; read alone they " \
           "give %s and %s" % (vec["tblA"], vec["kindB"], vec["tblB"], ["%s %s" % tuple(s) for s in vec["sched"]], out["A"], out["B"],
                               vec["aloneA"], vec["aloneB"])
    if out["A"] == vec["outA"] and out["B"] == vec["outB"]:
        return "shared", what
    return "other", what + "; the model of the code (one bookkeeping per Cid) predicts %s and %s" % (vec["outA"], vec["outB"])


def run(report):
    """Called from the C05 check."""
    ideal = core.tlc("MCSharedCid", "SharedCid_ideal.cfg")
    core.require_coverage(ideal, ACTIONS, "SharedCid ideal")
    report.add_tlc("SharedCid (bookkeeping per validator): two simultaneous validators on one Cid, tables <= 2 rows over 2 keys, "
                   "every interleaving; SessionsDoNotDisturbEachOther", ideal)
    pinned = core.tlc("MCSharedCid", "SharedCid_pinned.cfg", expect_violation=True, coverage=False)
    if pinned.violated != "SessionsDoNotDisturbEachOther":
        raise core.MachineryError("ChecksPerSession = FALSE (D45) gave no counterexample")
    report.notes.setdefault("expected_counterexamples", []).append(
        {"cfg": "SharedCid_pinned.cfg", "deviation": "D45 one bookkeeping per Cid shared by simultaneous validators",
         "violated": pinned.violated})
    code = core.tlc("MCSharedCid", "SharedCid_code.cfg")
    report.add_tlc("SharedCid (model of the code: one bookkeeping per Cid): source of interleavings with both predictions", code)
    vectors = code.by_tag("VEC")
    outcomes = core.parallel_map(_job, vectors, chunk=200)
    counts = {"alone": 0, "shared": 0, "other": 0, "crash": 0}
    for vec, (verdict, what) in zip(vectors, outcomes):
        report.replayed += 1
        counts[verdict] += 1
        report.count("shared:" + core.json.dumps([vec["tblA"], vec["tblB"], vec["kindB"], vec["sched"]]), True)
        if verdict == "shared":
            report.violation("sharedcid", vec, {"A": vec["aloneA"], "B": vec["aloneB"]}, None, what, signature="shared-check-state")
        elif verdict in ("other", "crash"):
            report.violation("sharedcid", vec, {"A": vec["aloneA"], "B": vec["aloneB"]}, None, what or "execution failed")
    report.notes["simultaneous_validators"] = counts
    if counts["alone"] == 0:
        core.selftest_failed("SharedCid: no interleaving at all behaved like two separate data sets (sequential interleavings must)")
    return counts
