"""
C02 -- each field type accepts exactly the values its rule describes.

Four specification modules, each a mechanism transcribed from the code and
checked by TLC against the meaning stated in the property:
  FieldInteger.tla   rule / length / default precedence, create_range_from_length
  FieldDateTime.tla  ordered replacement translation + calendar validity
  FieldDecimal.tla   separator translation loop + range
  FieldText.tla      Choice, Constant, Pattern (glob), RegEx (prefix match)
Every case TLC explores is replayed on the real field classes under the data
formats of the property; verdict and native value must equal the denotation.
"""
import decimal
import time

from harness import core

FORMATS_PLAIN = ["delimited", "ods"]


def lim(o):
    return "" if o == [] else str(o[0])


def items_text(items, scale=None, short=False):
    parts = []
    for lo, hi in items:
        def spell(o):
            if o == []:
                return ""
            if scale:
                text = "%.2f" % (decimal.Decimal(o[0]) / scale)
                return text.rstrip("0").rstrip(".") if short else text   # (1000.00 is also written 1000)
            return str(o[0])
        if lo == hi and lo != []:
            parts.append(spell(lo))
        else:
            parts.append("%s...%s" % (spell(lo), spell(hi)))
    return ", ".join(parts)


_FORMATS = {}


def data_format(fmt, **properties):
    from cutplace import data
    key = (fmt, tuple(sorted(properties.items())))
    if key not in _FORMATS:
        result = data.DataFormat(fmt)
        for name, value in sorted(properties.items()):
            result.set_property(name, value)
        result.validate()
        _FORMATS[key] = result
    return _FORMATS[key]


def _validated_once(field, text):
    from cutplace import errors
    try:
        return ["accept", field.validated(text)]
    except errors.FieldValueError as error:
        return ["reject", str(error)]
    except Exception as error:  # noqa
        return ["crash", "%s: %s" % (type(error).__name__, error)]


def validated(field, text):
    """
    The verdict of a field on a cell is a function of the cell: a field object serves every row of every data set read
    with its CID, so the same cell is validated again (twice) and must get the same outcome each time.
    """
    first = _validated_once(field, text)
    for _ in range(2):
        again = _validated_once(field, text)
        if again[0] != first[0] or (first[0] == "accept" and again[1] != first[1]):
            return ["crash", "validating the same cell again gives %s %r after %s %r" % (again[0], again[1], first[0], first[1])]
    return first


def declare(cls_name, *args):
    from cutplace import errors, fields
    try:
        return getattr(fields, cls_name)(*args), None
    except errors.InterfaceError as error:
        return None, ["refused", str(error)]
    except Exception as error:  # noqa
        return None, ["crash", "%s: %s" % (type(error).__name__, error)]


ARABIC_INDIC = {ord("0") + digit: 0x660 + digit for digit in range(10)}


# ------------------------------------------------------------------ Integer
def job_integer(vec):
    problems = []
    length = items_text(vec["decl"])
    rule = items_text(vec["rule"])
    formats = ["fixed"] if vec["fixed"] else ["delimited", "excel", "ods"]
    for fmt in formats:
        field, failure = declare("IntegerFieldFormat", "f", False, length, rule, data_format(fmt))
        what = "Integer field (format %s, length %r, rule %r)" % (fmt, length, rule)
        if vec["valid"] == ["refused"]:
            if field is not None:
                pass  # declaring a rule that contradicts the length is C09's business; nothing to judge here
            continue
        if field is None:
            problems.append("%s cannot be declared: %s" % (what, failure[1]))
            continue
        probes = [vec["probe"]]
        if vec["decl"] == [] and vec["rule"] == [] and vec["probe"] in (2147483647, -2147483647):
            probes += [2 ** 31, -(2 ** 31), -(2 ** 31) - 1]  # beyond TLC's integers: the property names the 32-bit range
        for probe in probes:
            expected = vec["meant"] if probe == vec["probe"] else (-(2 ** 31) <= probe <= 2 ** 31 - 1)
            text = str(probe)
            if vec["fixed"]:
                width = vec["decl"][0][0][0]
                if len(text) <= width:
                    text = text.ljust(width) if probe % 2 else text  # padded as the fixed reader delivers it, or bare
            outcome = validated(field, text)
            if outcome[0] == "crash":
                problems.append("%s: cell %r: %s" % (what, text, outcome[1]))
            elif (outcome[0] == "accept") != expected:
                problems.append("%s: cell %r is %sed but must be %sed" % (what, text, outcome[0], "accept" if expected else "reject"))
            elif outcome[0] == "accept" and (outcome[1] != probe or type(outcome[1]) is not int):
                problems.append("%s: cell %r yields %r instead of the integer %d" % (what, text, outcome[1], probe))
            if outcome[0] == "accept" and expected and probe == vec["probe"]:
                # single mutations of an accepted cell that Python's int() still reads as the same number: digit grouping with
                # "_", surrounding white space, digits of another script. None of them is an integer literal of the data.
                plain = str(probe)
                mutants = ["\t" + plain, plain + "\n", plain.translate(ARABIC_INDIC)]
                if len(plain.lstrip("-")) >= 2:
                    mutants.append(plain[:-1] + "_" + plain[-1])
                for mutant in mutants:
                    lenient = validated(field, mutant)
                    if lenient[0] != "reject":
                        problems.append("%s: cell %r (no integer literal) is %sed but must be rejected" % (what, mutant, lenient[0]))
    return problems


def separators_in_a_cid(report):
    """
    'Decimal - a number written with the data format's decimal and thousands separators': the separators are those of the
    complete CID, wherever their D rows stand -- before the field, after it, after a field that has an example (which is
    judged when its row is read). The oracle: every placement gives the verdicts and values of the placement 'D rows first',
    and those are the literal ones listed here.
    """
    import io
    import cutplace
    from cutplace import errors
    cells = {"17": 1700, "17,25": 1725, "1.234,5": 123450, "17.25": 172500, "0,5": 50, "1,234.5": None, "1,2,3": None, "12,3.4": None}
    separators = [["D", "Decimal separator", ","], ["D", "Thousands separator", "."]]
    for example in ("", "17", "1.700", "17,5"):
        field = ["F", "amount", example, "", "", "Decimal", ""]
        placements = {"first": [["D", "Format", "delimited"], ["D", "Item delimiter", ";"]] + separators + [field],
                      "last": [["D", "Format", "delimited"], ["D", "Item delimiter", ";"], field] + separators,
                      "around": [["D", "Format", "delimited"], ["D", "Item delimiter", ";"], separators[0], field, separators[1]]}
        for where, rows in sorted(placements.items()):
            if where != "first" and example in ("1.700", "17,5"):
                continue  # (an example is judged by the format as it is when its row is read: only 'first' must load)
            report.replayed += 1
            cid = cutplace.Cid()
            try:
                cid.read("cid", rows)
            except Exception as error:  # noqa
                report.violation("c02", {"separators": where, "example": example}, "loads", str(error),
                                 "CID with the separator rows %s and example %r cannot be read: %s: %s" % (where, example, type(error).__name__, error))
                continue
            for cell, want in sorted(cells.items()):
                try:
                    got = "accept" if list(cutplace.rows(cid, io.StringIO(cell + "\r\n", newline=""))) == [[cell]] else "row changed"
                except errors.DataError:
                    got = "reject"
                except Exception as error:  # noqa
                    got = "%s: %s" % (type(error).__name__, error)
                expected = "reject" if want is None else "accept"
                if got != expected:
                    report.violation("c02", {"separators": where, "example": example, "cell": cell}, expected, got,
                                     "Decimal field, decimal separator ',' and thousands separator '.' declared %s the field (example %r): "
                                     "cell %r is %sed but must be %sed" % (where if where != "around" else "before and after", example, cell, got, expected))
    report.notes["separators_in_a_cid"] = "separator D rows before, after and around a Decimal field with and without an example"


def long_decimals(report):
    """
    Decimal cells with more digits than the model holds (TLC's integers have 32 bits): 29 to 40 significant digits, at and
    just beyond the limits of a rule. The oracle is the property itself, evaluated with exact arithmetic: the cell is
    accepted iff the number it denotes lies inside the rule, and the value returned is that number, digit for digit.
    """
    from cutplace import errors
    cases = []
    for rule, lower, upper in (("0...1", decimal.Decimal(0), decimal.Decimal(1)), ("-5.5...5.5", decimal.Decimal("-5.5"), decimal.Decimal("5.5")),
                               ("", None, None)):
        texts = ["0." + "1234567890" * 3, "0." + "9" * 35, "1." + "0" * 28 + "1", "1." + "0" * 38, "5.5" + "0" * 30 + "1",
                 "-5.5" + "0" * 27 + "1", "5.4" + "9" * 33, "-0." + "0" * 30 + "1", "0." + "0" * 35 + "1", "123456789." + "123456789" * 3]
        for text in texts:
            value = decimal.Decimal(text)
            if lower is None:
                continue_default = abs(value) < decimal.Decimal(10) ** 19  # (documented default range: 19 digits before the point)
                cases.append((rule, text, continue_default, value))
            else:
                cases.append((rule, text, lower <= value <= upper, value))
    for fmt in ("delimited", "fixed"):
        for rule, text, inside, value in cases:
            field, failure = declare("DecimalFieldFormat", "f", False, str(len(text)) if fmt == "fixed" else "", rule, data_format(fmt))
            report.replayed += 1
            if field is None:
                report.violation("c02", {"long_decimal": text, "rule": rule}, None, failure, "Decimal field with rule %r cannot be declared: %s" % (rule, failure[1]))
                continue
            outcome = validated(field, text)
            what = "Decimal field (format %s, rule %r): cell %r (%d significant digits)" % (fmt, rule, text, len(value.as_tuple().digits))
            if outcome[0] == "crash":
                report.violation("c02", {"long_decimal": text, "rule": rule}, None, outcome[1], "%s: %s" % (what, outcome[1]))
            elif (outcome[0] == "accept") != inside:
                report.violation("c02", {"long_decimal": text, "rule": rule}, inside, outcome[0],
                                 "%s is %sed but the number it denotes lies %s the rule" % (what, outcome[0], "inside" if inside else "outside"))
            elif outcome[0] == "accept" and (outcome[1] != value or str(outcome[1].normalize()) != str(value.normalize())):
                report.violation("c02", {"long_decimal": text, "rule": rule}, str(value), str(outcome[1]),
                                 "%s yields %s, which is not the number the text denotes" % (what, outcome[1]))


def sweep_integers(report):
    """Thorough: every length declaration of the model x every integer of up to 6 characters."""
    from cutplace import errors
    result = core.tlc("MCFieldInteger", "FieldInteger_length.cfg", coverage=False)
    decls = []
    for vec in result.by_tag("VEC"):
        if not vec["fixed"] and vec["decl"] not in decls and vec["valid"] != ["refused"]:
            decls.append(vec["decl"])
    jobs = [(decl, start) for decl in decls for start in range(-99999, 1000000, 100000)]
    outcomes = core.parallel_map(_sweep_job, jobs, chunk=1)
    total = 0
    for (decl, start), (count, bad) in zip(jobs, outcomes):
        total += count
        for value, accepted in bad[:1]:
            report.violation("c02", {"family": "integer-sweep", "decl": decl, "value": value}, None, None,
                             "Integer field with length %r: %d is %s but its text %s the length" % (
                                 items_text(decl), value, "accepted" if accepted else "rejected",
                                 "does not fit" if accepted else "fits"))
    report.replayed += total
    report.notes["integer_length_sweep"] = "%d (declaration, integer) pairs: all integers of up to 6 characters x %d length declarations" % (
        total, len(decls))


def _sweep_job(job):
    from cutplace import errors, fields
    decl, start = job
    core.import_repo()
    field = fields.IntegerFieldFormat("f", False, items_text(decl), "", data_format("delimited"))
    bad = []
    count = 0

    def fits(n):
        if not decl:
            return True  # no length declared: every length fits
        return any((lo == [] or lo[0] <= n) and (hi == [] or n <= hi[0]) for lo, hi in decl)

    for value in range(start, min(start + 100000, 1000000)):
        text = str(value)
        try:
            field.validated(text)
            accepted = True
        except errors.FieldValueError:
            accepted = False
        count += 1
        if accepted != fits(len(text)):
            bad.append((value, accepted))
    return count, bad


# ------------------------------------------------------------------ DateTime
def job_datetime(vec):
    problems = []
    machinery = []
    rule = "".join(vec["rule"])
    cell = "".join(vec["cell"])
    model_fmt = "".join(vec["fmt"])
    expected = vec["expected"]
    two_digit_year = "YY" in vec["layout"] and "YYYY" not in vec["layout"]
    # machinery: the strptime model against the interpreter's time.strptime (same format, same cell)
    if vec["mutation"] != "xsuffix":
        try:
            parsed = list(time.strptime(cell, model_fmt)[:6])
            direct = ["accept", parsed]
        except ValueError:
            direct = ["reject"]
        if direct[0] != vec["outcome"][0] or (direct[0] == "accept" and direct[1] != list(vec["outcome"][1])):
            machinery.append("time.strptime(%r, %r) gives %r, the model %r" % (cell, model_fmt, direct, vec["outcome"]))
    formats = ["excel"] if vec["excel"] else ["delimited", "fixed", "ods"]
    for fmt in formats:
        length = str(len(cell)) if fmt == "fixed" else ""
        field, failure = declare("DateTimeFieldFormat", "f", False, length, rule, data_format(fmt))
        what = "DateTime field (format %s, rule %r)" % (fmt, rule)
        if field is None:
            problems.append("%s cannot be declared: %s" % (what, failure[1]))
            continue
        outcome = validated(field, cell)
        if outcome[0] == "crash":
            problems.append("%s: cell %r: %s" % (what, cell, outcome[1]))
        elif outcome[0] != expected[0]:
            problems.append("%s: cell %r is %sed but must be %sed" % (what, cell, outcome[0], expected[0]))
        elif outcome[0] == "accept":
            got = list(outcome[1][:6])
            want = list(expected[1])
            if two_digit_year:
                got[0] %= 100
                want[0] %= 100
            if got != want:
                problems.append("%s: cell %r yields the time tuple %r but denotes %r" % (what, cell, list(outcome[1][:6]), expected[1]))
    return problems, machinery


# ------------------------------------------------------------------ Decimal
def job_decimal(vec):
    problems = []
    ds, ts = vec["conv"]
    cell = "".join({"tab": "\t", "arabic0": "\u0660"}.get(char, char) for char in vec["cell"])
    problems_of_both = []
    for short in (False, True):
        # the limits of the rule with two fractional digits, or as short as they can be written: a cell may have more
        # fractional digits than the rule it is compared with
        problems_of_both.extend(_job_decimal_rule(vec, cell, items_text(vec["rule"], scale=100, short=short)))
        if problems_of_both or vec["rule"] == []:
            break
    return problems_of_both


def _job_decimal_rule(vec, cell, rule):
    problems = []
    ds, ts = vec["conv"]
    expected = vec["expected"]
    variants = [("delimited", {"decimal_separator": ds, "thousands_separator": ts}),
                ("fixed", {"decimal_separator": ds, "thousands_separator": ts})]
    if (ds, ts) == (".", ""):
        variants += [("excel", {}), ("ods", {})]
    # "late": the separators are set after the field was declared (a D row may follow the F rows of a CID); what counts is
    # the data format as it is when data are validated
    # "used": ... and an example of the field ("7", a number under every convention) was validated before that D row came
    variants += [(fmt + ":late", properties) for fmt, properties in variants[:2]] + [(fmt + ":used", properties) for fmt, properties in variants[:2]]
    for fmt, properties in variants:
        late = fmt.endswith(":late") or fmt.endswith(":used")
        used = fmt.endswith(":used")
        fmt = fmt.split(":")[0]
        length = str(len(cell)) if fmt == "fixed" else ""
        if late:
            from cutplace import data
            fresh = data.DataFormat(fmt)
            field, failure = declare("DecimalFieldFormat", "f", False, length, rule, fresh)
            if used and field is not None:
                try:
                    field.validated_value("7")
                except Exception:  # noqa
                    pass
            for name, value in sorted(properties.items()):
                fresh.set_property(name, value)
            fresh.validate()
        else:
            field, failure = declare("DecimalFieldFormat", "f", False, length, rule, data_format(fmt, **properties))
        what = "Decimal field (format %s, decimal separator %r, thousands separator %r%s, rule %r)" % (
            fmt, ds, ts, (" set after the field was declared" + (" and an example was validated" if used else "")) if late else "", rule)
        if field is None:
            problems.append("%s cannot be declared: %s" % (what, failure[1]))
            continue
        outcome = validated(field, cell)
        if outcome[0] == "crash":
            problems.append("%s: cell %r: %s" % (what, cell, outcome[1]))
        elif outcome[0] != expected[0]:
            problems.append("%s: cell %r is %sed but must be %sed" % (what, cell, outcome[0], expected[0]))
        elif outcome[0] == "accept":
            want = decimal.Decimal(expected[1]) / 100
            if not isinstance(outcome[1], decimal.Decimal) or outcome[1] != want:
                problems.append("%s: cell %r yields %r but denotes %s" % (what, cell, outcome[1], want))
    return problems


# ------------------------------------------------------------------ Choice, Constant, Pattern, RegEx
def job_text(vec):
    problems = []
    kind = vec["kind"]
    if kind == "choice":
        variants = [", ".join(vec["rule"]), ",".join('"%s"' % word for word in vec["rule"])]
        cls, cell = "ChoiceFieldFormat", vec["cell"]
    elif kind == "constant":
        variants = [vec["rule"][0], "'%s'" % vec["rule"][0]]
        cls, cell = "ConstantFieldFormat", vec["cell"]
    elif kind == "pattern":
        variants = ["".join(vec["rule"])]
        cls, cell = "PatternFieldFormat", "".join(vec["cell"])
    else:
        variants = ["".join(atom["ch"] + ("*" if atom["star"] else "") for atom in vec["rule"])]
        cls, cell = "RegExFieldFormat", "".join(vec["cell"])
    for rule in variants:
        for fmt in ("delimited", "fixed", "excel", "ods"):
            length = str(len(cell)) if fmt == "fixed" else ""
            if kind == "constant" and fmt == "fixed" and len(cell) != len(vec["rule"][0]):
                continue  # the declared width must equal the constant's length
            field, failure = declare(cls, "f", False, length, rule, data_format(fmt))
            what = "%s field (format %s, rule %r)" % (kind.capitalize(), fmt, rule)
            if field is None:
                problems.append("%s cannot be declared: %s" % (what, failure[1]))
                continue
            outcome = validated(field, cell)
            if outcome[0] == "crash":
                problems.append("%s: cell %r: %s" % (what, cell, outcome[1]))
            elif (outcome[0] == "accept") != vec["accept"]:
                problems.append("%s: cell %r is %sed but must be %sed" % (what, cell, outcome[0], "accept" if vec["accept"] else "reject"))
            elif outcome[0] == "accept" and outcome[1] != cell:
                problems.append("%s: cell %r yields %r" % (what, cell, outcome[1]))
    return problems


FAMILIES = {
    "integer": ("MCFieldInteger", ["FieldInteger_length.cfg", "FieldInteger_rules.cfg"], ["DeriveFromLength", "Decide", "Probe"]),
    "datetime": ("MCFieldDateTime", ["FieldDateTime_plain.cfg", "FieldDateTime_excel.cfg"], ["ApplyReplacement", "Validate"]),
    "decimal": ("MCFieldDecimal", ["FieldDecimal_all.cfg"], ["ProcessChar", "Finish"]),
    "text": ("MCFieldText", ["FieldText_all.cfg"], ["Decide"]),
}


def _job(job):
    family, vec = job
    if family == "integer":
        return job_integer(vec), []
    if family == "datetime":
        return job_datetime(vec)
    if family == "decimal":
        return job_decimal(vec), []
    return job_text(vec), []


def replay(behaviour, report=None):
    core.import_repo()
    if behaviour.get("family") == "integer-sweep":
        count, bad = _sweep_job((behaviour["decl"], behaviour["value"]))
        return ["%d is %s" % (v, "accepted" if a else "rejected") for v, a in bad[:1]]
    return _job((behaviour["family"], behaviour["vec"]))[0]


def nontrivial(family, vec):
    if family == "integer":
        return vec["decl"] != [] or vec["rule"] != []
    if family == "datetime":
        return vec["expected"][0] == "reject" or vec["mutation"] != "none"
    if family == "decimal":
        return len(vec["cell"]) > 2
    return len(vec["rule"]) > 1


def run(tier, report):
    core.import_repo()
    jobs = []
    for family, (module, cfgs, actions) in sorted(FAMILIES.items()):
        for cfg in cfgs:
            result = core.tlc(module, cfg, timeout=3000)
            core.require_coverage(result, actions, cfg)
            report.add_tlc("%s (%s)" % (module[2:], cfg), result)
            for vec in result.by_tag("VEC"):
                jobs.append((family, vec))
    pinned = core.tlc("MCFieldDecimal", "FieldDecimal_pinned.cfg", expect_violation=True, coverage=False)
    if pinned.violated != "DecimalMeansWhatItSays":
        raise core.MachineryError("RefusesForeignPoint = FALSE (D41) gave no counterexample")
    report.notes["expected_counterexamples"] = [{"cfg": "FieldDecimal_pinned.cfg", "violated": pinned.violated,
                                                 "deviation": "D41 a '.' that is no separator of the data format is read as decimal point"}]
    pinned = core.tlc("MCFieldDateTime", "FieldDateTime_pinned_onepass.cfg", expect_violation=True, coverage=False)
    if pinned.violated != "DateMeansWhatItSays":
        raise core.MachineryError("OnePassTranslation = FALSE (D71) gave no counterexample")
    report.notes["expected_counterexamples"].append({"cfg": "FieldDateTime_pinned_onepass.cfg", "violated": pinned.violated,
                                                     "deviation": "D71 date rules translated by successive replacements"})
    # vacuity guard: every layout of the model constants shows up among the behaviours
    layouts = {core.json.dumps(vec["layout"]) for family, vec in jobs if family == "datetime"}
    if len(layouts) < 59:
        raise core.MachineryError("only %d date layouts have behaviours (59 are configured)" % len(layouts))
    report.notes["date_layouts_with_behaviours"] = len(layouts)
    if tier == "quick":
        # the date family is the largest: replay every mutation and every rejection, and a third of the plain acceptances
        rng = core.rng(2)
        jobs = [job for job in jobs if job[0] != "datetime" or job[1]["mutation"] != "none" or job[1]["expected"][0] == "reject"
                or rng.random() < 0.34]
    outcomes = core.parallel_map(_job, jobs, chunk=300)
    shapes = {}
    for (family, vec), (problems, machinery) in zip(jobs, outcomes):
        report.replayed += 1
        report.count(core.json.dumps([family, vec], sort_keys=True), nontrivial(family, vec))
        if nontrivial(family, vec) and sum(1 for s in report.samples if s.get("family") == family) < 2:
            report.sample({"family": family, "case": {k: v for k, v in vec.items() if k in (
                "decl", "rule", "fixed", "probe", "meant", "cell", "expected", "mutation", "conv", "kind", "accept")}}, limit=8)
        if machinery:
            raise core.MachineryError("model of time.strptime differs from the interpreter: %s" % machinery[0])
        for problem in problems:
            shape = (family, problem.split(":")[0][:60], problem.rsplit(" is ", 1)[-1][:30])
            shapes[shape] = shapes.get(shape, 0) + 1
            if shapes[shape] <= 1:
                report.violation("c02", {"family": family, "vec": vec}, vec.get("expected", vec.get("meant", vec.get("accept"))),
                                 None, problem)
            else:
                report.violations.append({"what": problem})
    if tier == "thorough":
        sweep_integers(report)
    long_decimals(report)
    separators_in_a_cid(report)
    if not report.violations:
        for family, vec in jobs:
            if family == "decimal" and vec["expected"][0] == "accept":
                corrupted = dict(vec)
                corrupted["expected"] = ["accept", vec["expected"][1] + 1]
                if not job_decimal(corrupted):
                    core.selftest_failed("C02: a corrupted native value was not noticed")
                break
        for family, vec in jobs:
            if family == "text" and vec["kind"] == "regex" and not vec["accept"]:
                corrupted = dict(vec)
                corrupted["accept"] = True
                if not job_text(corrupted):
                    core.selftest_failed("C02: a corrupted verdict was not noticed")
                break
    report.exhaustive = True
    report.assumptions += [
        "integer cells are generated in canonical decimal form only; date cells are zero-padded; two-digit years are compared "
        "modulo 100; leap seconds are not generated",
        "decimal cells that must be rejected are a second decimal separator, a thousands separator after the decimal separator, "
        "or a letter -- never 'improperly grouped' or 'foreign separator' cells (the property does not clearly forbid them)",
        "time.strptime and Python's re / fnmatch are modelled for the generated subset; the strptime model is compared with the "
        "interpreter on every behaviour (difference = machinery failure)",
    ]
    return report.finish(rule="one case = (field declaration, cell) explored by TLC in one of the four type modules, replayed under "
                              "the data formats of the property; non-trivial = the declaration has a rule or length / the cell is "
                              "mutated or impossible / the rule has several parts; distinct by module and case")
