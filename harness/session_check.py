"""
Shared driver for the properties decided with spec/Session.tla:
TLC explores a configuration, every emitted history is replayed against one
real Cid object, each run's projection is compared with the specification's
prediction for a freshly loaded CID.
"""
from harness import core, sessionlib

READ_ACTIONS = ["ReaderStart", "ReaderRow", "ReaderEnd"]
WRITE_ACTIONS = ["WriterRow", "WriterEnd"]

_SHAPE_CACHE = {}


def _shape(vec, fmt):
    key = (vec["nfields"], core.json.dumps(vec["checks"], sort_keys=True), vec["header"], fmt, bool(vec.get("logcalls")))
    if key not in _SHAPE_CACHE:
        _SHAPE_CACHE[key] = sessionlib.Shape(vec["nfields"], vec["checks"], vec["header"], fmt,
                                             recording=bool(vec.get("logcalls")))
    return _SHAPE_CACHE[key]


def replay_history(vec, fmt="delimited"):
    """
    Replay one emitted history on one real Cid. Returns a list of
    (run index, problems, signature) for runs that differ from the prediction.
    """
    core.import_repo()
    shape = _shape(vec, fmt)
    cid = shape.new_cid()
    keep = []
    findings = []
    prepared = {}
    last_reader = None
    for index, entry in enumerate(vec["hist"]):
        run = entry["run"]
        # readers that the history creates now and iterates after this run (Park / Resume)
        for later, other in enumerate(vec["hist"]):
            if later > index and other["run"].get("deferred") and other["run"]["createdAt"] == index:
                prepared[later] = sessionlib.create_reader(shape, cid, other["run"])
        expected = sessionlib.normalise_expected(shape, run, entry["fresh"])
        if run["op"] == "write":
            observed = sessionlib.run_write(shape, cid, run, keep, release=True)
            last_reader = None
        else:
            again = None
            if run.get("again"):
                # rows() once more on the reader of the run before, which was not closed; the caller rewinds the source
                if last_reader is None:
                    raise core.MachineryError("history reads a reader again that does not exist: %r" % (run,))
                last_reader[1].seek(0)
                again = (last_reader[0], vec["hist"][index - 1].get("_text", ""))
            observed = sessionlib.run_read(shape, cid, run, keep, again or prepared.pop(index, None), release=True)
            last_reader = observed.pop("_reader", None)
            entry["_text"] = observed["text"]
        counters = run["op"] == "write" or run["api"] == "reader"
        problems = sessionlib.differences(run, expected, observed, counters)
        if run["op"] == "write" and not observed["stream_ok"]:
            problems.append("stream holds %r but must hold %r" % (observed["written"], observed["expected_stream"]))
        if problems:
            signature = None
            pinned = sessionlib.normalise_expected(shape, run, entry["pinnedror"])
            if not sessionlib.differences(run, pinned, observed, counters) and not (
                    run["op"] == "write" and not observed["stream_ok"]):
                signature = "register-on-reach"
            elif run["op"] == "write" and "pinnedrbw" in entry and observed["stream_ok"]:
                # known finding D14: the checks have seen a row that the container then refuses
                pinned = sessionlib.normalise_expected(shape, run, entry["pinnedrbw"])
                if not sessionlib.differences(run, pinned, observed, counters, tolerate_readback_end=entry.get("rbwBackDiffers", False)):
                    signature = "register-before-write"
            findings.append((index, problems, signature, observed))
    return findings


def replay_cli(vec):
    """
    C07 / C18: a single reader run in raise mode is what the command line does per file; its exit code must be
    1 iff the specification predicts an escaping error, with --until carrying the validation limit.
    """
    import csv
    import os
    core.import_repo()
    from cutplace import applications
    shape = _shape(vec, "delimited")
    entry = vec["hist"][0]
    run = entry["run"]
    folder = core.workdir("cli")
    try:
        cid_path = os.path.join(folder, "cid.csv")
        with open(cid_path, "w", newline="", encoding="utf-8") as cid_file:
            csv.writer(cid_file).writerows(shape.cid_rows())
        data_path = os.path.join(folder, "data.csv")
        with open(data_path, "w", newline="", encoding="cp1252") as data_file:
            data_file.write(shape.data_text(run["ds"]))
        argv = ["cutplace"]
        if run["limit"]:
            argv += ["--until", str(run["limit"][0])]
        argv += [cid_path, data_path]
        try:
            code = applications.main(argv)
        except SystemExit as error:
            code = "SystemExit(%s)" % error.code
        expected = 0 if entry["fresh"]["exc"]["cls"] == "none" else 1
        if code != expected:
            return [(0, ["exit code of %s is %r but must be %r" % (argv[1:-2] + ["cid", "data"], code, expected)], None,
                     {"exit": code})]
        return []
    finally:
        core.cleanup(folder)


def _replay_job(job):
    vec, fmt = job
    try:
        if fmt == "cli":
            return replay_cli(vec)
        return replay_history(vec, fmt)
    except core.MachineryError:
        raise
    except Exception as error:  # noqa
        import traceback
        return [(-1, ["harness exception: %s" % traceback.format_exc()[-800:]], "harness", None)]


def nontrivial(vec):
    for entry in vec["hist"]:
        fresh = entry["fresh"]
        if fresh["exc"]["cls"] != "none" or any(item[0] == "err" for item in fresh["out"]) or len(vec["hist"]) > 1:
            return True
    return False


def explore(report, property_id, name, cfg, fmts=("delimited",), require=READ_ACTIONS, simulate=None, depth=None,
            max_replay=None, timeout=3000, module="MCSession"):
    result = core.tlc(module, cfg, simulate=simulate, depth=depth, timeout=timeout)
    if simulate is None:
        core.require_coverage(result, require, "Session/" + cfg)
    report.add_tlc(name, result)
    vectors = result.by_tag("VEC")
    if not vectors:
        raise core.MachineryError("TLC emitted no behaviour for %s" % cfg)
    if simulate is not None:
        seen = set()
        unique = []
        for vec in vectors:
            key = core.json.dumps(vec["hist"], sort_keys=True)
            if key not in seen:
                seen.add(key)
                unique.append(vec)
        vectors = unique
    if max_replay is not None and len(vectors) > max_replay:
        rng = core.rng(len(vectors))
        vectors = rng.sample(vectors, max_replay)
    jobs = []
    for vec in vectors:
        for fmt in fmts:
            if fmt == "cli":
                run = vec["hist"][0]["run"]
                if not (len(vec["hist"]) == 1 and run["op"] == "read" and run["api"] == "reader" and run["mode"] == "raise"
                        and run["end"] == "close"):
                    continue
            if fmt.startswith("fixed"):
                shape = _shape(vec, fmt)
                if not all(shape.has_fixed_form(entry["run"]["ds"]) for entry in vec["hist"] if entry["run"]["op"] == "read"):
                    continue  # (fixed-width DATA cannot hold ragged rows; a writer can still be handed them)
                if any(row["w"] != "ok" for entry in vec["hist"] if entry["run"]["op"] == "write"
                       for row in entry["run"]["ds"]["rows"][:vec["header"]]):
                    continue  # (... but not as unvalidated header rows: they cannot be laid out in fixed width at all)
            jobs.append((vec, fmt))
    outcomes = core.parallel_map(_replay_job, jobs, chunk=50)
    for (vec, fmt), findings in zip(jobs, outcomes):
        report.replayed += 1
        report.count(core.json.dumps([fmt, [e["run"] for e in vec["hist"]]], sort_keys=True), nontrivial(vec))
        if nontrivial(vec):
            report.sample({"format": fmt, "history": [
                {k: v for k, v in entry["run"].items() if k != "res"} for entry in vec["hist"]],
                "predicted": [{"out": e["fresh"]["out"], "exc": e["fresh"]["exc"]["cls"]} for e in vec["hist"]]}, limit=5)
        for index, problems, signature, observed in findings:
            if signature == "harness":
                raise core.MachineryError(problems[0])
            behaviour = {"vec": vec, "fmt": fmt}
            report.violation(property_id.lower(), behaviour, vec["hist"][index]["fresh"], observed,
                             "%s run %d of %s: %s" % (fmt, index + 1, [
                                 (e["run"]["op"], e["run"]["api"], e["run"]["mode"], e["run"]["limit"], e["run"]["end"])
                                 for e in vec["hist"]], "; ".join(problems)),
                             signature=signature)
    return vectors


def replay(behaviour, report=None):
    if behaviour.get("kind") == "trace":
        from harness import trace_drivers
        return trace_drivers.replay_trace(behaviour)
    if behaviour.get("fmt") == "cli":
        findings = replay_cli(behaviour["vec"])
    else:
        findings = replay_history(behaviour["vec"], behaviour.get("fmt", "delimited"))
    return ["run %d: %s" % (index + 1, "; ".join(problems)) for index, problems, signature, observed in findings
            if signature is None]


def selftest(vectors, fmt="delimited"):
    """Corrupt one predicted item of one history and require the comparison to notice."""
    import copy
    for vec in vectors:
        entry = vec["hist"][0]
        if entry["fresh"]["out"] and entry["run"]["api"] != "validate":
            corrupted = copy.deepcopy(vec)
            first = corrupted["hist"][0]["fresh"]["out"][0]
            first[1] = first[1] + 1
            corrupted["hist"][0]["pinnedror"] = corrupted["hist"][0]["fresh"]
            if not replay_history(corrupted, fmt):
                core.selftest_failed("a corrupted predicted row number was not noticed")
            return
    core.selftest_failed("no history with output to corrupt")
