"""
C18 -- the command line's exit code reflects the validation outcome.

spec/Cli.tla: TLC explores (argument state, CID state, every list of up to 3
data files over 6 kinds in every order, --until setting) through the machine
of applications.process / main and checks the exit-code table, stated
independently of the order of the files. Every behaviour is replayed with
real files through applications.main (thorough: also as a subprocess), with
the CID and the data stored as delimited text, ODS and Excel.
"""
import contextlib
import csv
import io
import os
import subprocess

from harness import core, odslib

DATA = {
    "accepted": [["1", "a"], ["2", "b"], ["3", "c"]],
    "shares": [["2", "x"], ["3", "y"], ["4", "z"]],
    "fieldRejected": [["1", "a"], ["x", "b"], ["3", "c"]],
    "dupRejected": [["1", "a"], ["2", "b"], ["1", "c"]],
    # delimited storage: the text itself is malformed in row 4 (see RAW); spreadsheet storage: a field error in row 4
    "lateDamage": [["1", "a"], ["2", "b"], ["3", "c"], ["y", "d"]],
    # every row is fine; the fourth brings the fourth distinct name, one more than the DistinctCount check of the CID allows
    "endRejected": [["1", "a"], ["2", "b"], ["3", "c"], ["4", "d"], ["5", "a"]],
}
RAW = {"lateDamage": '1,a\r\n2,b\r\n3,c\r\n4,"d"x\r\n5,e\r\n'}
UNTIL = {"absent": [], "all": ["--until", "-1"], "0": ["--until", "0"], "k1": ["--until", "1"], "k2": ["--until", "2"], "k4": ["--until", "4"], "k9": ["--until", "9"],
         "huge": ["--until", str(2 ** 63)]}
LIMIT = {"absent": None, "all": None, "0": 0, "k1": 1, "k2": 2, "k4": 4, "k9": 9, "huge": 2 ** 63}


def cid_rows(storage, broken=False, header=0):
    fmt = {"csv": "delimited", "ods": "ods", "xlsx": "excel"}[storage]
    rows = [["D", "Format", fmt]] + ([["D", "Header", str(header)]] if header else []) + [["F", "id", "", "", "", "Integer" if not broken else "NoSuchType", "0...99"],
            ["F", "name", "", "X"], ["C", "id must be unique", "IsUnique", "id"], ["C", "few names", "DistinctCount", "name <= 3"]]
    return rows


def write_table(path, storage, table):
    if storage == "csv":
        with open(path, "w", newline="", encoding="utf-8") as target:
            csv.writer(target).writerows(table)
    elif storage == "ods":
        odslib.write_ods(path, odslib.content_xml([odslib.plain_sheet(table)]))
    else:
        import xlsxwriter
        workbook = xlsxwriter.Workbook(path)
        sheet = workbook.add_worksheet()
        for y, row in enumerate(table):
            for x, cell in enumerate(row):
                sheet.write_string(y, x, cell)
        workbook.close()


def materialise(folder, storage):
    """All files a behaviour can name, for one storage; returns {name: path}."""
    suffix = {"csv": ".csv", "ods": ".ods", "xlsx": ".xlsx"}[storage]
    paths = {}
    paths["cid:valid"] = os.path.join(folder, "cid_valid" + suffix)
    write_table(paths["cid:valid"], storage, cid_rows(storage))
    paths["cid:rejected"] = os.path.join(folder, "cid_rejected" + suffix)
    write_table(paths["cid:rejected"], storage, cid_rows(storage, broken=True))
    paths["cid:missing"] = os.path.join(folder, "no_such_cid" + suffix)
    for header in (1, 2):
        paths["cid:valid:h%d" % header] = os.path.join(folder, "cid_valid_h%d%s" % (header, suffix))
        write_table(paths["cid:valid:h%d" % header], storage, cid_rows(storage, header=header))
    # a named file is that file: names may hold characters that shells and glob patterns treat specially
    spelled = {"fieldRejected": "field[1]Rejected", "dupRejected": "dup?Rejected (copy)", "shares": "shares*"}
    for kind, table in DATA.items():
        paths[kind] = os.path.join(folder, spelled.get(kind, kind) + suffix)
        if storage == "csv" and kind in RAW:
            with open(paths[kind], "w", newline="", encoding="utf-8") as target:
                target.write(RAW[kind])
        else:
            write_table(paths[kind], storage, table)
    paths["missing"] = os.path.join(folder, "no_such_*_data" + suffix)
    paths["directory"] = os.path.join(folder, "a_directory" + suffix)
    os.makedirs(paths["directory"], exist_ok=True)
    # a plugin folder that defines nothing a CID of this run uses
    paths["plugins"] = os.path.join(folder, "plugins")
    os.makedirs(paths["plugins"], exist_ok=True)
    with open(os.path.join(paths["plugins"], "unrelated_plugin.py"), "w") as plugin_file:
        plugin_file.write("ANSWER = 42\n")
    return paths


def argv_of(vec, paths):
    if vec["args"] == "none":
        return ["cutplace"]
    if vec["args"] == "unknownOption":
        return ["cutplace", "--no-such-option", paths["cid:valid"]]
    if vec["args"] == "untilTooSmall":
        return ["cutplace", "--until", "-2", paths["cid:valid"], paths["accepted"]]
    if vec["args"] == "untilNotNumber":
        return ["cutplace", "--until", "many", paths["cid:valid"], paths["accepted"]]
    if vec["args"] == "badLogLevel":
        return ["cutplace", "--log", "verbose", paths["cid:valid"], paths["accepted"]]
    if vec["args"] == "untilWithoutValue":
        return ["cutplace", paths["cid:valid"], paths["accepted"], "--until"]
    if vec["args"] == "optionBetweenCidAndData":
        return ["cutplace", paths["cid:valid"], "--until", "2", paths["accepted"]]
    if vec["args"] == "pluginsWithoutValue":
        return ["cutplace", paths["cid:valid"], paths["accepted"], "--plugins"]
    until = UNTIL[vec["until"]]
    cid_key = "cid:" + vec["cid"] + (":h%d" % vec["header"] if vec.get("header") else "")
    positional = [paths[cid_key]] + [paths[kind] for kind in vec["files"]]
    deco = vec.get("deco", "plain")
    if deco == "logDebug":
        return ["cutplace", "--log", "debug"] + until + positional
    if deco == "logCritical":
        return ["cutplace"] + until + ["--log", "critical"] + positional
    if deco == "pluginsEmpty":
        return ["cutplace", "--plugins", paths["plugins"]] + until + positional
    if deco == "shortUntil":
        return ["cutplace"] + (["-u"] + until[1:] if until else []) + positional
    if deco == "untilEquals":
        return ["cutplace"] + (["--until=" + until[1]] if until else []) + positional
    if deco == "optionsLast":
        return ["cutplace"] + positional + until
    return ["cutplace"] + until + positional


def run_main(argv):
    from cutplace import applications
    sink = io.StringIO()
    with contextlib.redirect_stderr(sink), contextlib.redirect_stdout(sink):
        try:
            return applications.main(argv)
        except SystemExit as error:
            return error.code


def run_subprocess(argv):
    process = subprocess.run(["/venv/bin/python", "-m", "cutplace.applications"] + argv[1:], cwd=core.REPO,
                             stdout=subprocess.PIPE, stderr=subprocess.STDOUT)
    return process.returncode


def api_verdicts(report, paths, storage):
    """'accepted by the programmatic API': cutplace.validate on every file kind x limit agrees with the model's rule."""
    import cutplace
    from cutplace import errors
    cases = [(kind, 0) for kind in DATA] + ([(kind, header) for kind in ("accepted", "fieldRejected", "lateDamage") for header in (1, 2)]
                                            if storage == "csv" else [])
    for kind, header in cases:
        for until, limit in LIMIT.items():
            bad_at = {"accepted": 0, "shares": 0, "fieldRejected": 2, "dupRejected": 3, "lateDamage": 4, "endRejected": 4}[kind]
            if kind == "lateDamage" and storage == "csv":
                # (the container is malformed: met iff it lies within the header rows plus the rows the limit lets through)
                expected = limit is None or (limit > 0 and bad_at <= header + limit)
            else:
                expected = bad_at > header and (limit is None or bad_at <= limit)
            try:
                cutplace.validate(paths["cid:valid" + (":h%d" % header if header else "")], paths[kind], validate_until=limit)
                rejected = False
            except errors.DataError:
                rejected = True
            except Exception as error:  # noqa
                rejected = "%s: %s" % (type(error).__name__, error)
            report.replayed += 1
            if rejected != expected:
                report.violation("c18", {"api": [kind, until, storage, header]}, expected, rejected,
                                 "%s: header %d, cutplace.validate(%s file, validate_until=%r) %s but the limit rule says it is %s" % (
                                     storage, header, kind, limit, {True: "rejects it", False: "accepts it"}.get(rejected, "fails with %s" % rejected),
                                     "rejected" if expected else "accepted"))


def named_pipes(report, paths, folder):
    """
    'each file being judged': a data file may be a named pipe, which hands out its content once. The command is run in a
    subprocess while a thread feeds the pipe; the verdict must be the one of the same content in a regular file.
    """
    import threading
    for kind, expected in (("fieldRejected", 1), ("accepted", 0), ("dupRejected", 1)):
        with open(paths[kind], "rb") as source:
            content = source.read()
        for trial in range(3):
            fifo = os.path.join(folder, "pipe_%s_%d.csv" % (kind, trial))
            os.mkfifo(fifo)

            def feed():
                try:
                    with open(fifo, "wb") as target:  # (blocks until the command opens the pipe)
                        target.write(content)
                except OSError:
                    pass

            feeder = threading.Thread(target=feed, daemon=True)
            feeder.start()
            process = subprocess.Popen(["/venv/bin/python", "-m", "cutplace.applications", paths["cid:valid"], fifo], cwd=core.REPO,
                                       stdout=subprocess.DEVNULL, stderr=subprocess.DEVNULL)
            try:
                code = process.wait(timeout=60)
            except subprocess.TimeoutExpired:
                process.kill()
                process.wait()
                code = "no answer within 60 s"
            # release a feeder that is still waiting for somebody to open the pipe
            try:
                os.close(os.open(fifo, os.O_RDONLY | os.O_NONBLOCK))
            except OSError:
                pass
            feeder.join(10)
            os.remove(fifo)
            report.replayed += 1
            if code != expected:
                report.violation("c18", {"pipe": kind, "storage": "csv"}, expected, code,
                                 "csv: cutplace cid.csv <named pipe with the content of the %s file> answers %r but must answer %r" % (
                                     kind, code, expected))
                return


def line_breaks_in_cells(report, folder):
    """
    'Exits 0 if and only if every file is accepted by the programmatic API' -- for delimited files whose quoted cells hold
    line breaks (CR LF, CR, LF) under fields whose declared length or allowed characters tell the three apart. The oracle is
    the API on the same file.
    """
    import cutplace
    from cutplace import errors
    cids = {"short": [["D", "Format", "delimited"], ["D", "Encoding", "utf-8"], ["F", "id"], ["F", "note", "", "", "...6"]],
            "exact": [["D", "Format", "delimited"], ["D", "Encoding", "utf-8"], ["F", "id"], ["F", "note", "", "", "7"]],
            "nolf": [["D", "Format", "delimited"], ["D", "Encoding", "utf-8"], ["D", "Allowed characters", "13, 32...126"], ["F", "id"], ["F", "note"]],
            "unique": [["D", "Format", "delimited"], ["D", "Encoding", "utf-8"], ["F", "id"], ["F", "note"], ["C", "notes differ", "IsUnique", "note"]]}
    files = {"crlf": b'1,"abc\r\nde"\r\n2,"x"\r\n', "cr": b'1,"abc\rde"\r\n2,"x"\r\n', "lf": b'1,"abc\nde"\r\n2,"x"\r\n',
             "both": b'1,"abc\r\nde"\r\n2,"abc\nde"\r\n', "crcr": b'1,"abc\rde"\r\n2,"abc\nde"\r\n', "lfends": b'1,"abc\r\nde"\n2,"x"\n'}
    for cid_name, rows in sorted(cids.items()):
        cid_path = os.path.join(folder, "cid_breaks_%s.csv" % cid_name)
        write_table(cid_path, "csv", rows)
        for file_name, content in sorted(files.items()):
            path = os.path.join(folder, "breaks_%s.csv" % file_name)
            with open(path, "wb") as target:
                target.write(content)
            try:
                cutplace.validate(cid_path, path)
                expected = 0
            except errors.DataError:
                expected = 1
            code = run_main(["cutplace", cid_path, path])
            report.replayed += 1
            if code != expected:
                report.violation("c18", {"line_breaks": [cid_name, file_name]}, expected, code,
                                 "csv: cutplace <CID %r> <file %r> answers %r but cutplace.validate() of the same file says %r" % (
                                     rows[2:], content, code, expected))


def end_checks_under_limit(report, folder):
    """
    'Exits 0 if and only if every file is accepted by the programmatic API; --until N has the same effect as the API's
    validation limit' -- for files whose only defect is one a check reports at the END of the data (DistinctCount), with limits
    below, at and above the number of rows. The oracle is the API itself.
    """
    import cutplace
    from cutplace import errors
    cid_path = os.path.join(folder, "cid_end.csv")
    write_table(cid_path, "csv", [["D", "Format", "delimited"], ["F", "id", "", "", "", "Integer"], ["F", "name"],
                                  ["C", "few names", "DistinctCount", "name <= 2"], ["C", "some names", "DistinctCount", "name >= 1"]])
    files = {"three names": [["1", "a"], ["2", "b"], ["3", "c"], ["4", "a"], ["5", "b"]],
             "two names": [["1", "a"], ["2", "b"], ["3", "a"], ["4", "b"], ["5", "a"]],
             "late third name": [["1", "a"], ["2", "b"], ["3", "a"], ["4", "b"], ["5", "c"]]}
    for label, table in sorted(files.items()):
        path = os.path.join(folder, "end_%s.csv" % label.replace(" ", "_"))
        write_table(path, "csv", table)
        for limit in (None, 0, 1, 2, 3, 4, 5, 6, 9):
            try:
                cutplace.validate(cid_path, path, validate_until=limit)
                expected = 0
            except errors.DataError:
                expected = 1
            argv = ["cutplace"] + ([] if limit is None else ["--until", str(limit)]) + [cid_path, path]
            code = run_main(argv)
            report.replayed += 1
            if code != expected:
                report.violation("c18", {"end_check": label, "until": limit}, expected, code,
                                 "csv: cutplace %s <file with %s in 5 rows, checks: at most 2 and at least 1 distinct names> answers %r but "
                                 "cutplace.validate() with the same limit says %r" % (" ".join(argv[1:-2]), label, code, expected))


def replay(behaviour, report=None):
    core.import_repo()
    if "api" in behaviour or "pipe" in behaviour or "end_check" in behaviour or "line_breaks" in behaviour:
        return []
    folder = core.workdir("c18replay")
    try:
        paths = materialise(folder, behaviour.get("storage", "csv"))
        code = run_main(argv_of(behaviour, paths))
        return [] if code == behaviour["exit"] else ["exit code is %r but must be %r" % (code, behaviour["exit"])]
    finally:
        core.cleanup(folder)


def run(tier, report):
    core.import_repo()
    vectors = []
    for cfg in ("Cli_files.cfg", "Cli_args.cfg", "Cli_options.cfg", "Cli_header.cfg"):
        result = core.tlc("MCCli", cfg)
        core.require_coverage(result, ["ParseArgs"] + (["LoadCid", "ValidateFile", "Finish"] if cfg != "Cli_args.cfg" else []), cfg)
        report.add_tlc("Cli %s" % cfg, result)
        vectors += result.by_tag("VEC")
    vectors = sorted(vectors, key=core.json.dumps)
    folder = core.workdir("c18")
    rng = core.rng(18)
    try:
        trace_path = os.path.join(folder, "cli_trace.ndjson")
        for storage in ("csv", "ods", "xlsx"):
            if storage == "csv":
                from harness import tracelib
                tracelib.enable_hooks(trace_path)  # what the command line makes the readers do is validated against Session.tla
            else:
                from harness import tracelib
                tracelib.disable_hooks()
            paths = materialise(os.path.join(folder, storage), storage) if os.makedirs(os.path.join(folder, storage), exist_ok=True) is None else None
            api_verdicts(report, paths, storage)
            if storage == "csv":
                named_pipes(report, paths, os.path.join(folder, storage))
                end_checks_under_limit(report, os.path.join(folder, storage))
                line_breaks_in_cells(report, os.path.join(folder, storage))
            plain = [vec for vec in vectors if not vec.get("header")]   # (header rows: csv storage only, see Cli_header.cfg)
            chosen = vectors if storage == "csv" else (plain if tier == "thorough" else rng.sample(plain, 700))
            shapes = {}
            for vec in chosen:
                argv = argv_of(vec, paths)
                code = run_main(argv)
                report.replayed += 1
                report.count(core.json.dumps([storage, vec]), len(vec["files"]) > 1 or vec["exit"] != 0)
                if len(vec["files"]) == 3 and len(report.samples) < 5 and vec["exit"] in (1, 3):
                    report.sample({"storage": storage, "cid": vec["cid"], "files": vec["files"], "until": vec["until"], "exit": vec["exit"]})
                if code != vec["exit"]:
                    shape = (storage, vec["cid"], tuple(sorted(set(vec["files"]))), code, vec["exit"])
                    shapes[shape] = shapes.get(shape, 0) + 1
                    stored = dict(vec)
                    stored["storage"] = storage
                    what = "%s: cutplace %s answers %r but must answer %r" % (
                        storage, " ".join(os.path.basename(a) for a in argv[1:]), code, vec["exit"])
                    if shapes[shape] <= 1:
                        report.violation("c18", stored, vec["exit"], code, what)
                    else:
                        report.violations.append({"what": what})
            if tier == "thorough" and storage == "csv":
                for vec in rng.sample(vectors, 400):
                    code = run_subprocess(argv_of(vec, paths))
                    report.replayed += 1
                    if code != vec["exit"]:
                        report.violation("c18", dict(vec, storage=storage), vec["exit"], code,
                                         "subprocess: exit code %r but must be %r for %s" % (code, vec["exit"], vec))
        from harness import tracelib, trace_drivers
        tracelib.disable_hooks()
        if os.path.exists(trace_path):
            trace_drivers.validate_file(report, trace_path, "readers driven by applications.main (csv storage, every behaviour)")
        if not report.violations:
            vec = dict(vectors[0])
            vec["exit"] = 7
            if not replay(vec):
                core.selftest_failed("C18: a corrupted expected exit code was not noticed")
    finally:
        core.cleanup(folder)
    report.exhaustive = True
    report.assumptions += ["when one named file cannot be read and another one is rejected the run ends with 3 in either order (the "
                           "property names both codes; the code's behaviour is taken as the reading)",
                           "files of one kind named twice use the same path"]
    return report.finish(rule="one case = (argument state, CID state, ordered list of <= 3 data files over {accepted, shares keys, "
                              "rejected by a field, rejected by IsUnique, missing, directory}, --until) from TLC, replayed with CID "
                              "and data stored as csv / ods / xlsx; non-trivial = several files or a non-zero exit; distinct by case "
                              "and storage")
