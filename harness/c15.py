"""
C15 -- ODS sheets are read as the logical table they contain.

spec/Ods.tla: TLC explores (table, feature subset, sheets) with the encoder
and the decoder machine of ods_rows and checks Decode(Encode(t, f)) = t.
Every behaviour's document tree is serialised (harness/odslib.py, independent
of cutplace), zipped and read through rowio.ods_rows and cutplace.rows; the
malformed variants of the property (no zip, no content.xml, broken XML,
invalid repeat counts, truncated archive) must give a data-format error.
"""
import os

from harness import core, odslib


def collapse_row_runs(table):
    out = []
    for row in table:
        if not out or out[-1] != row:
            out.append(row)
    return out


def _job(job):
    vec, folder = job
    from cutplace import errors, rowio
    import cutplace
    problems = []
    os.makedirs(folder, exist_ok=True)
    path = os.path.join(folder, "t%d.ods" % os.getpid())
    decoy = odslib.plain_sheet([["decoy", "sheet"], ["x", ""]])
    sheets = [decoy] * vec["nsheets"]
    if vec["wanted"] <= vec["nsheets"]:
        sheets = list(sheets)
        sheets[vec["wanted"] - 1] = vec["doc"]
    odslib.write_ods(path, odslib.content_xml(sheets))
    expected = [[odslib.text_of(cell) for cell in row] for row in vec["table"]]
    what = "table %r encoded with %s, sheet %d of %d" % (expected, sorted(vec["features"]), vec["wanted"], vec["nsheets"])
    signature = None
    try:
        rows, disturbed = core.read_independently(lambda: rowio.ods_rows(path, vec["wanted"]))
        outcome = "rows"
        if disturbed is not None and disturbed != rows:
            problems.append("%s: read again beside an abandoned reader and in lockstep with another one, ods_rows returns %r "
                            "instead of %r" % (what, disturbed, rows))
    except errors.DataFormatError as error:
        rows, outcome = str(error), "DataFormatError"
    except Exception as error:  # noqa
        rows, outcome = "%s: %s" % (type(error).__name__, error), "crash"
    if vec["status"] == "nosheet":
        if outcome != "DataFormatError":
            problems.append("%s: requesting a missing sheet gives %s %r instead of a data-format error" % (what, outcome, rows))
    elif outcome != "rows":
        problems.append("%s: ods_rows fails with %s: %s" % (what, outcome, rows))
    elif rows != expected:
        if "rowruns" in vec["features"] and rows == collapse_row_runs(expected):
            signature = "row-repeats"
        problems.append("%s: ods_rows returns %r" % (what, rows))
    elif expected and len(set(len(r) for r in expected)) == 1 and all(c != "" for r in expected for c in r[:1]):
        # the same through a CID with Format ODS (rectangular tables whose first cells are not empty)
        cid = cutplace.Cid()
        cid.read("cid", [["D", "Format", "ods"], ["D", "Sheet", str(vec["wanted"])]] + [
            ["F", "c%d" % i, "", "X"] for i in range(len(expected[0]))])
        try:
            got = list(cutplace.rows(cid, path))
            if got != expected:
                problems.append("%s: cutplace.rows returns %r" % (what, got))
        except Exception as error:  # noqa
            problems.append("%s: cutplace.rows fails with %s: %s" % (what, type(error).__name__, error))
    return problems, signature


def faults(report, folder):
    """The malformed files of the property: each must give a data-format error."""
    from cutplace import errors, rowio
    good = odslib.plain_sheet([["a", "b"], ["c", "d"]])
    content = odslib.content_xml([good])
    cases = []
    path = os.path.join(folder, "fault.ods")

    def check(label, sheet=1, signature=None):
        report.replayed += 1
        try:
            rows = list(rowio.ods_rows(path, sheet))
            outcome = "rows %r" % (rows,)
        except errors.DataFormatError:
            return
        except Exception as error:  # noqa
            outcome = "%s: %s" % (type(error).__name__, error)
        report.violation("c15", {"fault": label}, "DataFormatError", outcome,
                         "%s: reading gives %s instead of a data-format error" % (label, outcome[:200]), signature=signature)

    with open(path, "w") as not_zip:
        not_zip.write("this is no zip archive")
    check("file that is not a zip archive")
    odslib.write_ods(path, content, with_content=False)
    check("archive without content.xml")
    for cut in [i for i, c in enumerate(content) if c == "<"][1:]:
        odslib.write_ods(path, content[:cut])
        check("content.xml cut at tag boundary %d" % cut)
    odslib.write_ods(path, content)
    check("missing sheet 2 of 1", sheet=2)
    # (the attribute sits on the first cell of the first row: a cell with text, an empty cell, an empty cell in front of others)
    empty_first = odslib.plain_sheet([["", "b"], ["c", "d"]])
    only_empty = odslib.plain_sheet([[""], ["c"]])
    # (" 2" is a valid xs:positiveInteger: white space collapses; digit grouping, digits of other scripts, exponents and
    # other bases are no XML Schema integers)
    for value in ("0", "00", "-1", "x", "", "1.5", "\u00b2", "1_0", "\u0663", "1e1", "0x2", "2 2"):
        for label, sheet_rows in (("a cell with text", good), ("an empty cell", empty_first), ("the only, empty cell of its row", only_empty)):
            odslib.write_ods(path, odslib.content_xml([sheet_rows], column_attribute=value))
            check("table:number-columns-repeated=%r on %s" % (value, label))
    # ... also when a document in which the same text is a valid count (text:c="0": no blanks) was read just before
    before = os.path.join(folder, "before.ods")
    for value in ("0", "00", " 0", "+0"):
        no_blanks = [{"rep": 1, "cells": [{"rep": 1, "paras": [[{"k": "raw", "text": "a"}, {"k": "markup", "xml": '<text:s text:c="%s"/>' % value},
                                                                 {"k": "raw", "text": "b"}]]}]}]
        odslib.write_ods(before, odslib.content_xml([no_blanks]))
        for label, sheet_rows in (("a cell with text", good), ("an empty cell", empty_first)):
            for attribute in ("column", "row"):
                try:
                    first = list(rowio.ods_rows(before, 1))
                except errors.DataFormatError:
                    first = None  # (this spelling is no count at all: nothing to remember)
                if first not in (None, [["ab"]]):
                    report.violation("c15", {"fault": "text:c=%r" % value}, [["ab"]], first, "text:c=%r (no blanks) between a and b reads as %r" % (value, first))
                odslib.write_ods(path, odslib.content_xml([sheet_rows], **{attribute + "_attribute": value}))
                check("table:number-%ss-repeated=%r on %s, read after a document with text:c=%r" % (attribute, value, label, value),
                      signature="row-repeats-invalid" if attribute == "row" else None)
    # the count of blanks of text:s is a repeat count too (xs:nonNegativeInteger)
    for value in ("-1", "-3", "x", "", "1.5", "1_0", "\u0663"):
        blanks = [{"rep": 1, "cells": [{"rep": 1, "paras": [[{"k": "raw", "text": "a"}, {"k": "markup", "xml": '<text:s text:c="%s"/>' % value},
                                                              {"k": "raw", "text": "b"}]]}]}]
        odslib.write_ods(path, odslib.content_xml([blanks]))
        check("text:c=%r" % value)
    # rows grouped in groups in groups ...: rows of the sheet all the same, or a data-format error, at any depth
    for depth in (3, 40, 1500):
        xml = odslib.content_xml([good]).replace("<table:table-row>", "<table:table-row-group>" * depth + "<table:table-row>", 1).replace(
            "</table:table-row>", "</table:table-row>" + "</table:table-row-group>" * depth, 1)
        odslib.write_ods(path, xml)
        report.replayed += 1
        try:
            outcome = list(rowio.ods_rows(path, 1))
            if outcome != [["a", "b"], ["c", "d"]]:
                report.violation("c15", {"fault": "row groups nested %d deep" % depth}, [["a", "b"], ["c", "d"]], outcome,
                                 "first row inside %d nested row groups: reading gives %r" % (depth, outcome))
        except errors.DataFormatError:
            pass
        except Exception as error:  # noqa
            report.violation("c15", {"fault": "row groups nested %d deep" % depth}, "rows or DataFormatError", type(error).__name__,
                             "first row inside %d nested row groups: reading fails with %s: %s" % (depth, type(error).__name__, str(error)[:100]))
    for value in ("0", "-1", "x", ""):
        odslib.write_ods(path, odslib.content_xml([good], row_attribute=value))
        check("table:number-rows-repeated=%r" % value, signature="row-repeats-invalid")
    odslib.write_ods(path, content)
    with open(path, "rb") as archive:
        data = archive.read()
    for offset in range(0, len(data), 64):
        with open(path, "wb") as truncated:
            truncated.write(data[:offset])
        check("archive truncated at byte %d" % offset)
    encodings(report, folder)


def encodings(report, folder):
    """'In any encoding the format allows': content.xml as UTF-8, UTF-16 (either byte order, with byte order mark) and
    ISO-8859-1, with and without white space behind the root element -- the same rows."""
    from cutplace import rowio
    table = [["a", "\u00e9 b"], ["c  d", ""], ["<&>", "x"]]
    content = odslib.content_xml([odslib.plain_sheet(table)])
    path = os.path.join(folder, "encoded.ods")
    for encoding, declared in (("utf-8", "UTF-8"), ("utf-8-sig", "UTF-8"), ("utf-16", "UTF-16"), ("iso-8859-1", "ISO-8859-1"),
                               ("utf-16-le", None), ("utf-16-be", None)):
        for trailer in ("", "\n", "\r\n", " ", "\n\n\t "):
            text = content
            if declared is None:   # (explicit byte order: the byte order mark is written by hand)
                odslib.write_ods(path, "\ufeff" + text, encoding=encoding, declared="UTF-16", trailer=trailer)
            else:
                odslib.write_ods(path, text, encoding=encoding, declared=declared, trailer=trailer)
            report.replayed += 1
            try:
                rows = list(rowio.ods_rows(path))
            except Exception as error:  # noqa
                rows = "%s: %s" % (type(error).__name__, str(error)[:120])
            if rows != table:
                report.violation("c15", {"fault": "encoding %s, trailer %r" % (encoding, trailer)}, table, rows,
                                 "content.xml encoded as %s with %r behind the root element: reading gives %r instead of %r" % (
                                     encoding, trailer, rows, table))


def replay(behaviour, report=None):
    core.import_repo()
    if "fault" in behaviour:
        return []
    folder = core.workdir("c15replay")
    try:
        return [p for p in _job((behaviour, folder))[0]]
    finally:
        core.cleanup(folder)


def run(tier, report):
    core.import_repo()
    rng = core.rng(15)
    plans = {"quick": [("quick_a", None, 6000), ("quick_b", None, 6000), ("structure", None, 6000), ("sheets", None, None), ("sim", 150, None)],
             "thorough": [("quick_a", None, None), ("quick_b", None, None), ("structure", None, None), ("sheets", None, None), ("deep", None, 80000), ("deep_b", None, 80000),
                          ("sim", 5000, None)]}
    folder = core.workdir("c15")
    try:
        first = None
        for name, simulate, cap in plans[tier]:
            result = core.tlc("MCOds", "Ods_%s.cfg" % name, simulate=simulate, depth=120, timeout=7000)
            if simulate is None:
                core.require_coverage(result, ["AddRow", "AddChar", "Start", "DecodeRow", "Finish"], "Ods/" + name)
            report.add_tlc("Ods %s" % name, result)
            vectors = result.by_tag("VEC")
            unique = {}
            for vec in vectors:
                unique[core.json.dumps([vec["table"], sorted(vec["features"]), vec["nsheets"], vec["wanted"]])] = vec
            vectors = [unique[k] for k in sorted(unique)]
            if cap is not None and len(vectors) > cap:
                vectors = rng.sample(vectors, cap)
            first = first or vectors
            outcomes = core.parallel_map(_job, [(vec, folder) for vec in vectors], chunk=100)
            shown = 0
            for vec, (problems, signature) in zip(vectors, outcomes):
                report.replayed += 1
                nontrivial = bool(vec["features"]) and any(len(cell) > 0 for row in vec["table"] for cell in row)
                report.count(core.json.dumps([vec["table"], sorted(vec["features"]), vec["wanted"]]), nontrivial)
                if nontrivial and len(vec["table"]) >= 2 and len(report.samples) < 5:
                    report.sample({"table": vec["table"], "features": sorted(vec["features"]), "sheets": [vec["nsheets"], vec["wanted"]]})
                for problem in problems:
                    if signature is None and shown >= 3:
                        report.violations.append({"what": problem})
                        continue
                    if report.violation("c15", vec, {"rows": vec["table"]}, None, problem, signature=signature):
                        shown += 1
        for pinned, what in (("pinned_text", "D4a only the text in front of the first child element is read"),
                             ("pinned_rows", "D4b table:number-rows-repeated is ignored"),
                             ("pinned_groups", "D35 rows inside table:table-header-rows / table:table-row-group are skipped"),
                             ("pinned_covered", "D36 covered cells of merged ranges are skipped")):
            result = core.tlc("MCOds", "Ods_%s.cfg" % pinned, expect_violation=True, coverage=False)
            if result.violated != "ReadsTheLogicalTable":
                raise core.MachineryError("expected-counterexample configuration Ods_%s found none" % pinned)
            report.notes.setdefault("expected_counterexamples", []).append({"cfg": "Ods_%s.cfg" % pinned, "deviation": what})
        faults(report, folder)
        if not report.violations:
            for vec in first:
                if vec["status"] == "done" and vec["table"] and vec["table"][0][0]:
                    corrupted = dict(vec)
                    corrupted["table"] = [[cell + ["a"] for cell in row] for row in vec["table"]]
                    if not _job((corrupted, folder))[0]:
                        core.selftest_failed("C15: a corrupted expected table was not noticed")
                    break
    finally:
        core.cleanup(folder)
    report.exhaustive = True
    report.assumptions += [
        "the ODF writer (harness/odslib.py) only serialises the tree chosen by the specification's Encode; white space that ODF "
        "consumers would collapse (leading, trailing, repeated blanks, tabs, line breaks) is always written as ODF elements",
        "XML-special characters are represented by the string '<&>', non-ASCII by 'e-acute'",
    ]
    return report.finish(rule="one case = (table of text cells, subset of encoding features, number of sheets, requested sheet) from "
                              "TLC, serialised and read back; non-trivial = some feature is on and some cell is not empty; distinct "
                              "by that tuple")
