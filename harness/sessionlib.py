"""
Concretisation and projection for spec/Session.tla (C04-C08, C14, C20, C18).

concretise: abstract table -> data text (delimited or fixed), abstract checks -> CID rows
project:    what the real reader / writer did -> the result record of the specification
            [out, acc, rej, exc, calls]

The concrete CID has NFields value fields (Integer 0...99) plus a trailing
Text field "rid" that carries the raw row number, so that a yielded row can be
mapped back to its position without trusting the code's own bookkeeping.
"""
import io

from harness import core

OPS = {"lt": "<", "le": "<=", "eq": "==", "ge": ">=", "gt": ">", "ne": "!="}


RID_PREFIXES = ["", "a\nb", "x,y", 'q"q', " ", "a\r\nb", "\n", "c\rd"]


def delimited_line(shape, cells):
    """One line of delimited data as csv's default dialect writes it (what DelimitedRowWriter must produce, C12)."""
    if shape.single:
        return ",".join(cells) + "\r\n"  # (an empty line stands for a row without items)
    import csv
    stream = io.StringIO(newline="")
    # (under 'skip initial space' every item is quoted, so that blanks at the start of a cell stay part of the cell)
    csv.writer(stream, quoting=csv.QUOTE_ALL if shape.skip else csv.QUOTE_MINIMAL).writerow(cells)
    return stream.getvalue()


class Shape(object):
    """Everything that is fixed for one TLC configuration: number of fields, checks, header, data format."""

    def __init__(self, nfields, checks, header, fmt="delimited", recording=False):
        self.nfields = nfields
        self.checks = checks
        self.header = header
        self.line = "lf"
        # "...@file": writers write into a real file in ASCII encoding (the container refuses rows it cannot encode)
        self.file_target = fmt.endswith("@file")
        if self.file_target:
            fmt = fmt[:-len("@file")]
        self.narrow = fmt == "narrow"  # recording CID that allows digits, dot and blank only (C20: allowed characters are per CID)
        if self.narrow:
            fmt = "delimited"
        # "...+skip": delimited data whose CID says 'skip initial space' (the csv reader then runs with other settings)
        self.skip = "+skip" in fmt
        fmt = fmt.replace("+skip", "")
        self.declared_line = ":" in fmt  # (delimited data: a line delimiter other than the default 'any' is declared)
        if ":" in fmt:
            fmt, self.line = fmt.split(":")
        self.eol = {"lf": "\n", "crlf": "\r\n", "cr": "\r", "none": "", "any": "\n"}[self.line]
        self.fmt = fmt
        self.recording = recording
        self.width = 8 if recording else 3
        # a CID with a single field that may be empty (no row-id field): rows are matched by order and content
        self.single = nfields == 1 and not recording
        if recording:
            from harness import recording as _recording  # noqa: F401 -- defines the plugin classes before any Cid exists

    def cid_rows(self):
        rows = [["D", "Format", self.fmt]]
        if self.header:
            rows.append(["D", "Header", str(self.header)])
        if self.fmt == "fixed" or (self.fmt == "delimited" and self.declared_line):
            rows.append(["D", "Line delimiter", self.line])
        if self.file_target:
            rows.append(["D", "Encoding", "ascii"])
        if self.skip:
            rows.append(["D", "Skip initial space", "true"])
        if self.recording:
            rows.append(["D", "Allowed characters", "32, 46, 48...57" if self.narrow else "32...125"])  # "~" (126) is never allowed
        length = str(self.width) if self.fmt == "fixed" else ""
        for index in range(1, self.nfields + 1):
            if self.recording:
                rows.append(["F", "f%d" % index, "", "X", length if self.fmt == "fixed" else "...7", "Recording", str(index)])
            else:
                # every second field may be empty: a whitespace-only cell is then a cell its field must still reject
                rows.append(["F", "f%d" % index, "", "X" if (index % 2 == 0 or self.single) else "", length, "Integer", "0...99"])
        if not self.single:
            rows.append(["F", "rid", "", "", length, "Text", ""])
        for number, check in enumerate(self.checks, 1):
            if check["t"] == "u":
                rows.append(["C", "check %d" % number, "IsUnique", ", ".join("f%d" % k for k in check["key"])])
            elif check["t"] == "d":
                rows.append(["C", "check %d" % number, "DistinctCount", "f%d %s %d" % (check["f"], OPS[check["op"]], check["n"])])
            else:
                rows.append(["C", "check %d" % number, "Recording",
                             "%d %d %d" % (number, check["veto"], 1 if check["endFail"] else 0)])
        return rows

    def new_cid(self):
        import cutplace
        cid = cutplace.Cid()
        cid.read("cid", self.cid_rows())
        return cid

    # ---- rows
    def cells(self, row, number):
        """Concrete cells of abstract row `row` that is raw row `number`."""
        if row["w"] == "empty":
            return []  # a line without any content
        cells = []
        for index, cls in enumerate(row["c"]):
            value = row["v"][index]
            if self.recording:
                if cls == "ok":
                    cells.append("%d.%d" % (value, number))
                elif cls == "rej":
                    cells.append(("9%d.%d" if self.narrow else "r%d.%d") % (value, number))
                elif cls == "emp":
                    cells.append("")
                elif self.narrow and index % 2 == 1:
                    cells.append("r%d.%d" % (value, number))  # a letter: allowed by other CIDs of the process, not by this one
                elif index % 2 == 0 and self.fmt != "fixed":
                    cells.append("%d.long.%d" % (value, number))  # violates the declared length
                else:
                    cells.append("%d~.%d" % (value, number))  # holds a character that is not allowed
            elif cls == "ok":
                cells.append(str(value))
            elif cls == "rej":
                cells.append(self.rejected_cell(index + 1, value, number))
            elif cls == "emp":
                cells.append("")
            elif cls == "grd":
                cells.append("999999")  # violates the declared length
            else:
                raise core.MachineryError("cell class %r" % cls)
        if self.single:
            return [] if row["w"] == "short" else (cells + ["extra"] if row["w"] == "long" else cells)
        rid = ("0.%d" if self.recording else "%d") % number
        if self.fmt == "delimited" and not self.recording:
            # the row id of delimited data carries text that needs quoting: line breaks, the delimiter, quotes, blanks
            prefix = RID_PREFIXES[number % len(RID_PREFIXES)]
            if prefix:
                rid = "%s.%s" % (prefix, rid)
        if row["w"] == "enc":
            rid += "\u0100"  # accepted by the Text field, not representable in the target's encoding
        if row["w"] == "short":
            return cells[:self.nfields - 1] + [rid]
        if row["w"] == "long":
            return cells[:self.nfields] + [rid, "extra"]
        return cells + [rid]

    def rejected_cell(self, column, value, number):
        """
        A cell the Integer field of `column` rejects (per the oracles of C02 / C03), drawn from a pool by row number:
        not an integer, out of the rule's range, empty although mandatory, or -- for a field that may be empty and data
        that is not fixed-width -- consisting of white space only.
        """
        optional = column % 2 == 0 or self.single
        if self.fmt == "fixed":
            pool = ["x%d" % value, "100", "1 1"] if optional else ["   ", "x%d" % value, "100", "-1"]
        else:
            pool = [" ", "x%d" % value, "  ", "100", "1.5"] if optional else ["x%d" % value, "", " ", "100", "-1"]
        # (two rows in a row use the same entry: the same unacceptable text twice in one column)
        return pool[((number - 1) // 2) % len(pool)]

    def data_text(self, table):
        lines = []
        for number, row in enumerate(table["rows"], 1):
            if table["fault"] == number:
                break
            cells = self.cells(row, number)
            if self.fmt == "fixed":
                lines.append("".join(cell.ljust(self.width)[:max(self.width, len(cell))] for cell in cells) + self.eol)
            else:
                lines.append(delimited_line(self, cells))
        text = "".join(lines)
        if table["fault"]:
            if self.fmt == "fixed":
                text += "1"  # a record that ends too early
            elif table["fault"] % 2 == 0:
                text += '"1,2,%d\r\n' % table["fault"]  # a quote that is never closed
            else:
                text += '"1"x,2,%d\r\n' % table["fault"]  # strict csv: delimiter expected after the closing quote
        return text

    def has_fixed_form(self, table):
        return all(row["w"] == "ok" and "grd" not in row["c"] for row in table["rows"])


# ------------------------------------------------------------------ projection
def _check_index(shape, error):
    """Which check raised `error` (0 if it cannot be told)."""
    message = error.message if hasattr(error, "message") else str(error)
    for number, check in enumerate(shape.checks, 1):
        if check["t"] == "u":
            names = [("f%d" % k) for k in check["key"]]
            if ("values for %r must be unique" % names) in message:
                return number
        elif check["t"] == "d":
            expression = "count %s %d" % (OPS[check["op"]], check["n"])
            if "distinct count is" in message and expression in message.replace("  ", " "):
                return number
        else:
            if ("recording check %d " % number) in message:
                return number
    return 0


def project_error(shape, error, from_close=False, nrows=None):
    """Abstract error record [cls, line, cell, by, see] of a cutplace error (or of anything else that escaped)."""
    from cutplace import errors
    name = type(error).__name__
    if not isinstance(error, errors.CutplaceError):
        return {"cls": "other:" + name, "line": 0, "cell": 0, "by": 0, "see": 0, "text": str(error)[:200]}
    line = error.location.line + 1 if error.location is not None else 0
    try:
        cell = error.location.cell + 1 if error.location is not None else 0
    except AssertionError:
        cell = 0
    see = error.see_also_location.line + 1 if error.see_also_location is not None else 0
    by = _check_index(shape, error) if name == "CheckError" else 0
    message = error.message
    is_end = name == "CheckError" and ("distinct count is" in message or "at end" in message)
    if name == "CheckError" and by == 0 and not is_end and nrows is not None and error.location is not None:
        # a message this harness does not know (the wording is no property): an error of the end of the data is the one
        # that is located behind the last row
        is_end = from_close or error.location.line >= nrows
    if is_end:
        return {"cls": name, "line": 0, "cell": 0, "by": by, "see": 0}
    if name == "DataFormatError":
        # where a malformed container is reported is not part of any listed property (and differs per reader)
        return {"cls": name, "line": 0, "cell": 0, "by": 0, "see": 0}
    return {"cls": name, "line": line, "cell": cell, "by": by, "see": see}


NO_ERR = {"cls": "none", "line": 0, "cell": 0, "by": 0, "see": 0}


def message_problems(shape, error, source_name="<io>"):
    """C04: the text of a row error names the input, the 1-based row and column, and the offending field."""
    from cutplace import errors
    problems = []
    if isinstance(error, errors.DataError) and not isinstance(error, errors.DataFormatError) and error.location is not None:
        text = str(error)
        try:
            where = "%s (R%dC%d)" % (source_name, error.location.line + 1, error.location.cell + 1)
        except AssertionError:
            where = source_name
        if not text.startswith(where):
            problems.append("error text %r does not start with %r" % (text[:80], where))
        if type(error).__name__ == "FieldValueError":
            field_name = "f%d" % (error.location.cell + 1) if error.location.cell < shape.nfields else "rid"
            if ("'%s'" % field_name) not in text:
                problems.append("error text %r does not name field %r" % (text[:120], field_name))
    return problems


def item_of(shape, item, messages=None):
    from cutplace import errors
    if isinstance(item, errors.CutplaceError):
        if messages is not None:
            messages.extend(message_problems(shape, item))
        e = project_error(shape, item)
        return ["err", e["line"], e["cell"], e["cls"], e["by"], e["see"]]
    if isinstance(item, Exception):
        return ["err", 0, 0, "other:" + type(item).__name__, 0, 0]
    def number(cell):
        return int(cell.strip().rsplit(".", 1)[-1])

    if shape.single:
        return ["row", list(item)]
    if list(item) == []:
        return ["row", "empty"]  # (a row without items carries no row id; it is matched by its position among the items)
    try:
        return ["row", number(item[-1])]
    except (ValueError, IndexError, TypeError, AttributeError):
        # long rows are never yielded as rows when validated; unvalidated ones carry the id one before the end
        try:
            return ["row", number(item[shape.nfields])]
        except Exception:  # noqa
            return ["row", -1]


def create_reader(shape, cid, run):
    """The Reader object of a run that is created now and iterated later (Park / Resume of the specification)."""
    from cutplace import validio
    text = shape.data_text(run["ds"])
    limit = run["limit"][0] if run["limit"] else None
    reader = validio.Reader(cid, io.StringIO(text, newline=""), on_error=run["mode"], validate_until=limit)
    # every second parked reader is also asked for its iterator now (rows() called, no row asked for yet): the run starts
    # when its first row is asked for
    early = reader.rows() if run.get("createdAt", 0) % 2 == 0 else None
    return reader, text, early


def _let_go(keep, release, mine=()):
    """
    While a later run is mid-way, the readers, iterators and writers that earlier runs abandoned or never closed are
    dropped (Python finalises a suspended generator whenever its last reference goes): the
    bookkeeping of the run in progress belongs to that run.
    """
    if release and keep:
        # (reference counting finalises them at once; a full gc.collect() would walk the whole heap of the worker)
        keep[:] = [item for item in keep if any(item is own for own in mine)]


def run_read(shape, cid, run, keep=None, prepared=None, release=False):
    """Execute one read run of the specification on the real code; returns the projected result record."""
    import cutplace
    from cutplace import validio
    table = run["ds"]
    text = shape.data_text(table)
    source = io.StringIO(text, newline="")
    limit = run["limit"][0] if run["limit"] else None
    mode = run["mode"]
    handle = None  # (reader, source) of a reader that stays open, for a later run that reads it again
    early = None
    if prepared is not None:
        prepared, text, early = prepared[0], prepared[1], (prepared[2] if len(prepared) > 2 else None)
    api = run["api"]
    end = run["end"]
    raw = []  # yielded items are kept as they are and looked at only after the iteration has moved on and ended (C06)
    messages = []
    exc = dict(NO_ERR)
    acc = rej = None
    call_log = _start_call_log(shape)
    if api == "validate":
        try:
            cutplace.validate(cid, source, validate_until=limit)
        except Exception as error:  # noqa
            exc = project_error(shape, error, nrows=len(table["rows"]))
    elif api == "rows":
        generator = cutplace.rows(cid, source, on_error=mode, validate_until=limit)
        try:
            if end == "abandon":
                for _ in range(run["k"]):
                    raw.append(next(generator))
                generator.close()
            else:
                for item in generator:
                    raw.append(item)
                    if len(raw) == 1:
                        _let_go(keep, release)
                        # another CID of the same shape is loaded while this data set is being read: the bookkeeping of
                        # one Cid object must not depend on other Cid objects of the process
                        shape.new_cid()
        except StopIteration:
            pass
        except Exception as error:  # noqa
            exc = project_error(shape, error, nrows=len(table["rows"]))
            messages.extend(message_problems(shape, error))
    else:
        if end == "close":
            reader = None
            try:
                with (prepared or validio.Reader(cid, source, on_error=mode, validate_until=limit)) as reader:
                    for item in (early if early is not None else reader.rows()):
                        raw.append(item)
                        if len(raw) == 1:
                            _let_go(keep, release)
            except Exception as error:  # noqa
                exc = project_error(shape, error, nrows=len(table["rows"]))
            if reader is not None:
                acc, rej = reader.accepted_rows_count, reader.rejected_rows_count
                handle = (reader, getattr(reader, "_source_data_stream_or_path", source))
                # "When called a second time, do nothing": the with block has closed the reader, whatever the end checks
                # said; extra verdict calls show up in the call log (C20), an error here is a problem of its own
                try:
                    reader.close()
                except Exception as error:  # noqa
                    messages.append("close() called once more on the closed reader raised %s: %s" % (type(error).__name__, error))
        else:
            reader = prepared or validio.Reader(cid, source, on_error=mode, validate_until=limit)
            handle = (reader, getattr(reader, "_source_data_stream_or_path", source))
            if keep is not None:
                keep.append(reader)  # "never closed": keep it alive so that no destructor interferes
            try:
                iterator = early if early is not None else reader.rows()
                if keep is not None:
                    keep.append(iterator)
                if end == "abandon":
                    for _ in range(run["k"]):
                        raw.append(next(iterator))
                else:
                    for item in iterator:
                        raw.append(item)
                        if len(raw) == 1:
                            _let_go(keep, release, (reader, iterator))
            except StopIteration:
                pass
            except Exception as error:  # noqa
                exc = project_error(shape, error, nrows=len(table["rows"]))
            acc, rej = reader.accepted_rows_count, reader.rejected_rows_count
    out = [item_of(shape, item, messages) for item in raw]
    return {"out": out, "exc": exc, "acc": acc, "rej": rej, "text": text, "messages": messages,
            "calls": _stop_call_log(call_log), "_reader": handle}


def expected_line(shape, row, number):
    cells = shape.cells(row, number)
    if shape.fmt == "fixed":
        return "".join(cell.ljust(shape.width) for cell in cells) + (shape.eol if shape.line != "any" else __import__("os").linesep)
    return delimited_line(shape, cells)


def run_write(shape, cid, run, keep=None, release=False):
    from cutplace import validio
    table = run["ds"]
    folder = path = None
    if shape.file_target:
        import os
        folder = core.workdir("target%d" % os.getpid())
        path = os.path.join(folder, "out.txt")
        target = path

        def so_far():
            return None  # the file is looked at once, after the writer was closed
    else:
        target = io.StringIO(newline="")
        so_far = target.getvalue
    out = []
    exc = dict(NO_ERR)
    acc = rej = 0
    stream_ok = True
    expected_stream = ""
    call_log = _start_call_log(shape)
    writer = validio.Writer(cid, target)
    if keep is not None:
        keep.append(writer)
    for number, row in enumerate(table["rows"], 1):
        cells = shape.cells(row, number)
        if shape.fmt == "fixed" and number % 2 == 0:
            # a caller may pass fixed-width values with some of their padding already in place: the same value, and the same
            # key for the checks, as without ("1 " and "1" are both written, and read back, as "1  ")
            cells = [cell + " " if cell and len(cell) < shape.width else cell for cell in cells]
        if shape.fmt == "fixed" and shape.recording and row["w"] == "ok" and number > shape.header:   # (a header row is not looked at by anybody: it has to fit)
            # a writer can be handed a value that is too long only because of blanks: it violates the declared length all the
            # same (cell class "grd": no value hook, nothing written), although its text without the blanks would fit
            cells = [("%d.%d" % (row["v"][index], number)).ljust(shape.width + 2) if cls == "grd" and index % 2 == 0 and index < len(row["c"])
                     else cell for index, (cell, cls) in enumerate(zip(cells, list(row["c"]) + ["ok"] * len(cells)))]
        before = so_far()
        try:
            writer.write_row(cells)
            out.append(["row", number])
            acc += 1
            expected_stream += expected_line(shape, row, number)
        except Exception as error:  # noqa
            e = project_error(shape, error)
            # the column a writer reports is not part of any listed property (C04 speaks about reading)
            out.append(["err", number, 0, e["cls"], e["by"], e["see"]])
            rej += 1
            if so_far() != before:
                stream_ok = False
        # (delimited data with a declared line delimiter: which line end the writer uses is not stated by C14 -- csv's
        # CR LF or the declared one --, the read-back below decides)
        exact = not (shape.fmt == "delimited" and shape.declared_line)
        if path is None and exact and so_far() != expected_stream:
            stream_ok = False
        if number == 1:
            _let_go(keep, release, (writer,))
    written = so_far()
    if run["end"] == "close":
        try:
            writer.close()
        except Exception as error:  # noqa
            exc = project_error(shape, error, from_close=True, nrows=0)
    if path is not None:
        if run["end"] == "close":
            with open(path, "r", encoding="ascii", newline="") as produced:
                written = produced.read()
            stream_ok = written == expected_stream
        else:
            written = expected_stream  # never closed: what reached the file so far is the operating system's business
        core.cleanup(folder)
    calls = _stop_call_log(call_log)
    # C14: the produced output validates again under the same CID and returns the written values (modulo padding)
    readback = []
    try:
        source = io.StringIO(written, newline="")
        emitted = [number for kind, number, *_ in out if kind == "row"]
        back = list(cutplace_rows(shape.new_cid(), source))
        expected_back = [shape.cells(table["rows"][number - 1], number) for number in emitted][shape.header:]
        if shape.fmt == "fixed":
            # rows written into the header need not have the declared number of items; fixed-width text cannot be re-split then
            if any(len(shape.cells(table["rows"][number - 1], number)) != shape.nfields + 1 for number in emitted[:shape.header]):
                raise _SkipReadBack()
        got = [[cell.rstrip(" ") if shape.fmt == "fixed" else cell for cell in row] if isinstance(row, list) else repr(row)
               for row in back]
        if got != expected_back:
            readback.append("reading the output back gives %s but %s was written" % (got, expected_back))
    except _SkipReadBack:
        pass
    except Exception as error:  # noqa
        e = project_error(shape, error)
        if not (e["cls"] == "CheckError" and e["line"] == 0):
            readback.append("reading the output back fails: %s: %s" % (type(error).__name__, error))
        elif run["end"] == "close" and exc["cls"] != "CheckError":
            readback.append("reading the output back fails at the end (%s) although closing the writer did not" % error)
    return {"out": out, "exc": exc, "acc": acc, "rej": rej, "stream_ok": stream_ok, "written": written,
            "expected_stream": expected_stream, "messages": readback, "calls": calls}


class _SkipReadBack(Exception):
    pass


def cutplace_rows(cid, source):
    import cutplace
    return cutplace.rows(cid, source, on_error="yield")


def _start_call_log(shape):
    if not shape.recording:
        return None
    from harness import recording
    del recording.LOG[:]
    return recording.LOG


def _stop_call_log(call_log):
    if call_log is None:
        return None
    return [list(entry) for entry in call_log]


def normalise_calls(calls, nchecks):
    """
    C20, weaker reading of "reset once before the first row": the checks may be reset more than once as long as
    every reset precedes every other call -- repeated leading blocks of resets are folded into one.
    """
    calls = [list(entry) for entry in calls]
    block = [["reset", c] for c in range(1, nchecks + 1)]
    while nchecks and calls[:nchecks] == block and calls[nchecks:2 * nchecks] == block:
        calls = calls[nchecks:]
    return calls


def normalise_expected(shape, run, expected):
    """The specification's result record in the shape of the projection."""
    exc = dict(expected["exc"])
    if exc["cls"] == "DataFormatError":
        exc["line"] = 0
    out = [list(item) for item in expected["out"]]
    if shape.single:
        out = [item if item[0] == "err" else ["row", shape.cells(run["ds"]["rows"][item[1] - 1], item[1])] for item in out]
    if not shape.single:
        for item in out:
            if item[0] == "row" and isinstance(item[1], int) and 0 < item[1] <= len(run["ds"]["rows"]) \
                    and run["ds"]["rows"][item[1] - 1]["w"] == "empty":
                item[1] = "empty"
    if run["op"] == "write":
        for item in out:
            if item[0] == "err":
                item[2] = 0
    result = {"out": out, "exc": exc, "acc": expected["acc"], "rej": expected["rej"], "calls": expected.get("calls")}
    return result


def _without_unknown_check(expected_out, observed_out):
    """Which check raised is told from the message; where the wording is unknown (0) it is not compared."""
    result = []
    for index, item in enumerate(expected_out):
        item = list(item)
        if item[0] == "err" and index < len(observed_out) and observed_out[index][0] == "err" and observed_out[index][3] == "CheckError" \
                and observed_out[index][4] == 0 and item[3] == "CheckError":
            item[4] = 0
        result.append(item)
    return result


def differences(run, expected, observed, compare_counters, tolerate_readback_end=False):
    problems = []
    expected = dict(expected)
    expected["out"] = _without_unknown_check(expected["out"], observed["out"])
    if observed["exc"].get("cls") == "CheckError" and observed["exc"].get("by") == 0 and expected["exc"].get("cls") == "CheckError":
        expected["exc"] = dict(expected["exc"], by=0)
    if run.get("api") != "validate" and observed["out"] != expected["out"]:  # validate() returns nothing
        problems.append("items are %s but must be %s" % (observed["out"], expected["out"]))
    observed_exc = {k: observed["exc"][k] for k in ("cls", "line", "cell", "by", "see")}
    expected_exc = {k: expected["exc"][k] for k in ("cls", "line", "cell", "by", "see")}
    if observed_exc != expected_exc:
        problems.append("escaping error is %s but must be %s" % (observed["exc"], expected_exc))
    problems.extend(message for message in observed.get("messages", [])
                    if not (tolerate_readback_end and message.startswith("reading the output back fails at the end")))
    if observed.get("calls") is not None and expected.get("calls") is not None:
        nchecks = len([1 for entry in expected["calls"] if entry[0] == "cleanup"]) or len(
            [1 for entry in expected["calls"] if entry[0] == "reset"])
        got = normalise_calls(observed["calls"], nchecks)
        want = normalise_calls(expected["calls"], nchecks)
        if got != want:
            problems.append("calls are %s but the documented protocol gives %s" % (got, want))
    if compare_counters and observed.get("acc") is not None:
        if (observed["acc"], observed["rej"]) != (expected["acc"], expected["rej"]):
            problems.append("counters accepted/rejected are %s/%s but must be %s/%s" % (
                observed["acc"], observed["rej"], expected["acc"], expected["rej"]))
    return problems
