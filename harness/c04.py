"""
C04 -- decided with spec/Session.tla; see harness/session_props.py for the plan and DESIGN.md section 5. The position
arithmetic that "errors name the culprit" rests on has a specification of its own, spec/Location.tla (harness/location.py).
"""
from harness import location, session_check, session_props


def run(tier, report):
    return session_props.run_plan("C04", tier, report, extra=location.run_extra)


def replay(behaviour, report=None):
    if "location" in behaviour:
        return location.replay(behaviour)
    return session_check.replay(behaviour, report)
