"""
The position arithmetic every error location rests on: spec/Location.tla, replayed into cutplace.errors.Location.

Every behaviour TLC emits (a creation with three flags and up to MaxSteps method calls) is stepped through a real
Location object; after each call the coordinates and the text form must be what the specification says, and at the end
every copy taken on the way must still read as it did when it was taken.
"""
import copy

from harness import core

NAME = "data.csv"


def text_of(pieces):
    """The documented text form from the pieces of Render: data.csv (Sheet1!R1C1;1)."""
    inner = ""
    for label, number in pieces:
        if label == "Sheet":
            inner += "Sheet%d!" % number
        elif label == ";":
            inner += ";%d" % number
        else:
            inner += "%s%d" % (label, number)
    return "%s (%s)" % (NAME, inner)


def reads_as(text, pieces):
    """
    The text names the input and, in this order, the 1-based numbers the specification gives (sheet, row, cell, column as
    far as they exist). The wording around the numbers is the documented one today (text_of) but is not what is judged.
    """
    import re
    return text.startswith(NAME) and [int(n) for n in re.findall(r"[0-9]+", text[len(NAME):])] == [number for _, number in pieces]


def _job(vec):
    from cutplace import errors
    flags = vec["flags"]
    location = errors.Location(NAME, has_column=flags["column"], has_cell=flags["cell"], has_sheet=flags["sheet"])
    problems = []
    copies = []
    done = []
    for step in vec["hist"]:
        op, arg = step["op"], step["arg"]
        done.append("%s(%s)" % (op, arg if op not in ("advance_sheet", "copy") else ""))
        try:
            if op == "copy":
                copies.append(copy.copy(location))
            elif op == "advance_sheet":
                location.advance_sheet()
            else:
                getattr(location, op)(arg)
        except Exception as error:  # noqa
            problems.append("Location%s after %s: %s: %s" % (sorted(k for k in flags if flags[k]), ", ".join(done), type(error).__name__, error))
            break
        want = step["after"]
        got = {"line": location.line, "column": location.column if flags["column"] else want["column"],
               "cell": location.cell if flags["cell"] else want["cell"], "sheet": location.sheet if flags["sheet"] else want["sheet"]}
        if got != want or not reads_as(str(location), step["text"]):
            problems.append("Location%s after %s: is at %s and reads %r but must be at %s and read %r" % (
                sorted(k for k in flags if flags[k]), ", ".join(done), got, str(location), want, text_of(step["text"])))
            break
    else:
        texts = [str(kept) for kept in copies]
        wanted = [text_of(pieces) for pieces in vec["copies"]]
        if not all(reads_as(text, pieces) for text, pieces in zip(texts, vec["copies"])):
            problems.append("Location%s after %s: the copies taken on the way read %s but must (still) read %s" % (
                sorted(k for k in flags if flags[k]), ", ".join(done), texts, wanted))
    return problems


def run_extra(report, tier, module="c04"):
    core.import_repo()
    result = core.tlc("Location", "Location_quick.cfg" if tier == "quick" else "Location_deep.cfg", timeout=3000)
    core.require_coverage(result, ["AdvanceColumn", "AdvanceCell", "SetCell", "AdvanceLine", "AdvanceSheet", "Copy"], "Location")
    report.add_tlc("Location: 8 flag combinations x every sequence of %d calls" % (4 if tier == "quick" else 5), result)
    vectors = result.by_tag("VEC")
    if not vectors:
        raise core.MachineryError("Location.tla emitted no behaviour")
    outcomes = core.parallel_map(_job, vectors, chunk=2000)
    shown = 0
    for vec, problems in zip(vectors, outcomes):
        report.replayed += 1
        for problem in problems:
            shown += 1
            if shown <= 3:
                report.violation(module, {"location": vec}, None, None, problem)
            else:
                report.violations.append({"what": problem})
    report.notes["location_arithmetic"] = "%d call sequences stepped through errors.Location" % len(vectors)
    # self-test: a corrupted prediction (one coordinate off) is noticed
    for vec in vectors:
        if any(step["op"] == "advance_line" for step in vec["hist"]):
            corrupted = core.json.loads(core.json.dumps(vec))
            for step in corrupted["hist"]:
                if step["op"] == "advance_line":
                    step["after"]["line"] += 1
                    break
            if not _job(corrupted):
                core.selftest_failed("Location: a corrupted predicted line was not noticed")
            break


def replay(behaviour):
    core.import_repo()
    return _job(behaviour["location"])
