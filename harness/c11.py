"""
C11 -- data-format properties mean what the CID says; contradictions are refused.

spec/DataFormat.tla: TLC explores every (format, one or two settings) and
computes, from the documented tables, whether each setting applies, what it
denotes, and whether the completed data format is consistent. Every behaviour
is replayed through DataFormat.set_property / validate and through Cid.read on
`D` rows, in several spellings of names and values.
"""
import csv

from harness import core

NAMES = {9: "tab", 10: "lf", 11: "vt", 12: "ff", 13: "cr"}
ESCAPED = {9: '"\\t"', 10: '"\\n"', 13: '"\\r"', 0: '"\\x00"', 92: '"\\\\"', 127: '"\\x7f"', 201: '"\\xc9"', 228: '"\\xe4"', 8364: '"\\u20ac"'}
ALLOWED = {"range": ("32...127", [[32, 127]]), "letters": ('"A"..."Z", 0xc9', [[65, 90], [201, 201]])}
MALFORMED = {"empty": [""], "twochars": ['"ab"', "'xy'"], "unknownname": ["foo", "tabulator"], "float": ["1.5"],
             "unterminated": ["'ab", '"x'], "junk": ["x", "1.5", ""],
             # (runs of characters that are neighbours in the documented sets of quote / escape / separator characters)
             "neighbours": ["+-", '!"', ":;", ",.", "!\"#$%&'*+-/:;=?\\^_`~", '"\\', ".,"]}
LINE = {"lf": "\n", "cr": "\r", "crlf": "\r\n", "any": "any", "none": None}


def spell_value(prop, v, variant):
    kind = v["kind"]
    if kind == "char":
        cp, sp = v["cp"], v["sp"]
        if sp == "literal":
            return chr(cp)
        if sp == "dec":
            return str(cp)
        if sp == "hex":
            return hex(cp) if variant % 2 == 0 else "0x%02X" % cp
        if sp == "dquoted":
            return '"%s"' % chr(cp)
        if sp == "squoted":
            return "'%s'" % chr(cp)
        if sp == "escaped":
            return ESCAPED[cp]
        if sp == "symbolic":
            return NAMES[cp] if variant % 2 == 0 else NAMES[cp].capitalize()
    if kind == "name":
        name = v["name"]
        if prop == "encoding":
            return ["utf-8", "ascii", "iso-8859-15", "cp1252"][variant % 4] if name == "known" else "no-such-encoding"
        if prop == "allowed_characters":
            return ALLOWED[name][0] if name in ALLOWED else "32...x y"
        return [name, name.upper(), name.capitalize()][variant % 3]
    if kind == "int":
        return str(v["n"])
    options = MALFORMED[kind]
    return options[variant % len(options)]


def spell_name(prop, variant):
    return [prop, prop.replace("_", " "), prop.replace("_", " ").capitalize(), prop.replace("_", " ").upper()][variant % 4]


def project(data_format):
    """The attributes of a real DataFormat in the vocabulary of the specification."""
    result = {}
    fmt = data_format.format

    def char(text):
        # (a value of several characters is reported as such: a data format must not hold one)
        return [0] if text == "" else ([ord(text)] if isinstance(text, str) and len(text) == 1 else ["no single character: %r" % (text,)])

    result["header"] = [data_format.header]
    result["encoding"] = [data_format.encoding]
    result["allowed_characters"] = ["none"] if data_format.allowed_characters is None else [
        [name for name, (text, items) in ALLOWED.items() if items == [list(item) for item in data_format.allowed_characters.items]
         ] + ["other range %s" % data_format.allowed_characters]][0][:1]
    if fmt in ("excel", "ods"):
        result["sheet"] = [data_format.sheet]
    if fmt in ("delimited", "fixed"):
        result["decimal_separator"] = char(data_format.decimal_separator)
        result["thousands_separator"] = char(data_format.thousands_separator)
        result["line_delimiter"] = [[k for k, v in LINE.items() if v == data_format.line_delimiter][0]]
    if fmt == "delimited":
        result["item_delimiter"] = char(data_format.item_delimiter)
        result["quote_character"] = char(data_format.quote_character)
        result["escape_character"] = char(data_format.escape_character)
        result["quoting"] = ["all" if data_format.quoting == csv.QUOTE_ALL else "minimal"]
        result["skip_initial_space"] = ["true" if data_format.skip_initial_space else "false"]
    return result


def expected_attrs(vec):
    result = {}
    for prop, value in vec["attrs"].items():
        if value == ["unset"]:
            continue
        if prop == "encoding":
            continue  # compared separately (the concrete name is the harness's)
        result[prop] = value
    return result


def run_api(vec, variant):
    """DataFormat.set_property / validate; returns (status, refused index, attrs or None, escaped exception)."""
    from cutplace import data, errors
    data_format = data.DataFormat(vec["fmt"])
    encoding = None
    for index, setting in enumerate(vec["settings"], 1):
        value = spell_value(setting["prop"], setting["v"], variant)
        if setting["prop"] == "encoding" and setting["v"].get("name") == "known":
            encoding = value
        try:
            data_format.set_property(setting["prop"], value)
        except errors.InterfaceError:
            return "refused", index, project(data_format), None, encoding
        except Exception as error:  # noqa
            return "crash", index, None, "%s: %s (property %s = %r)" % (type(error).__name__, error, setting["prop"], value), encoding
    try:
        data_format.validate()
    except errors.InterfaceError:
        # "contradictory settings are refused": every time the format is completed, and it never counts as valid
        try:
            data_format.validate()
            again = "accepted"
        except errors.InterfaceError:
            again = "refused"
        except Exception as error:  # noqa
            again = "%s: %s" % (type(error).__name__, error)
        if again != "refused" or data_format.is_valid:
            return "crash", len(vec["settings"]), None, "the contradictory format was refused by validate(); asked again it is %s, is_valid is %r" % (
                again, data_format.is_valid), encoding
        return "inconsistent", len(vec["settings"]), project(data_format), None, encoding
    except Exception as error:  # noqa
        return "crash", len(vec["settings"]), None, "%s: %s (validate)" % (type(error).__name__, error), encoding
    return "valid", len(vec["settings"]), project(data_format), None, encoding


def run_cid(vec, variant):
    """Cid.read on D rows; returns (status, row of the error or 0, attrs, escaped exception)."""
    import cutplace
    from cutplace import errors
    rows = [["D", ["Format", "format", "FORMAT"][variant % 3], [vec["fmt"], vec["fmt"].capitalize()][variant % 2]]]
    for setting in vec["settings"]:
        rows.append([["D", "d", " D "][variant % 3], spell_name(setting["prop"], variant),
                     spell_value(setting["prop"], setting["v"], variant)])
    rows.append(["F", "some_field", "", "", "3" if vec["fmt"] == "fixed" else ""])
    cid = cutplace.Cid()
    try:
        cid.read("cid", rows)
    except errors.InterfaceError as error:
        line = error.location.line + 1 if hasattr(error.location, "line") else 0
        if cid.data_format is not None and cid.data_format.is_valid and vec["status"] == "inconsistent":
            return "crash", 0, None, "the CID was refused (%s) but its data format counts as valid (rows %r)" % (error, rows)
        return "error", line, None, None
    except Exception as error:  # noqa
        return "crash", 0, None, "%s: %s (rows %r)" % (type(error).__name__, error, rows)
    return "valid", 0, project(cid.data_format), None


def _job(vec):
    problems = []
    what = "format %s, settings %s" % (vec["fmt"], [(s["prop"], s["v"]) for s in vec["settings"]])
    want = expected_attrs(vec)
    for variant in range(3):
        status, index, attrs, crash, encoding = run_api(vec, variant)
        spelled = [(s["prop"], spell_value(s["prop"], s["v"], variant)) for s in vec["settings"]]
        if status == "crash":
            problems.append("%s: set_property %r neither accepts nor refuses with an interface error: %s" % (what, spelled, crash))
        elif status != vec["status"] or (status == "refused" and index != vec["refusedAt"]):
            problems.append("%s: spelled %r the outcome is %s (at setting %d) but must be %s (at setting %d)" % (
                what, spelled, status, index, vec["status"], vec["refusedAt"]))
        elif attrs is not None:
            got = {k: v for k, v in attrs.items() if k != "encoding"}
            if got != want:
                diff = {k: (got.get(k), want.get(k)) for k in set(got) | set(want) if got.get(k) != want.get(k)}
                problems.append("%s: spelled %r the data format holds (got, expected) %s" % (what, spelled, diff))
            expected_encoding = encoding if (encoding and vec["status"] != "refused") else (
                encoding if encoding and any(s["prop"] == "encoding" for s in vec["settings"][:vec["refusedAt"] - 1]) else None)
            if expected_encoding is None and not any(s["prop"] == "encoding" for s in vec["settings"]):
                expected_encoding = "cp1252"
            if expected_encoding is not None and attrs["encoding"] != [expected_encoding]:
                problems.append("%s: encoding is %s but must be %s" % (what, attrs["encoding"], expected_encoding))
        status, line, attrs, crash = run_cid(vec, variant)
        if status == "crash":
            problems.append("%s: Cid.read neither accepts nor refuses with an interface error: %s" % (what, crash))
        elif vec["status"] == "valid":
            if status != "valid":
                problems.append("%s: spelled %r the CID is refused (row %d) but must be accepted" % (what, spelled, line))
            elif {k: v for k, v in attrs.items() if k != "encoding"} != want:
                problems.append("%s: spelled %r the loaded CID's data format differs from %s" % (what, spelled, want))
        else:
            if status == "valid":
                problems.append("%s: spelled %r the CID is accepted but must be refused (%s)" % (what, spelled, vec["status"]))
            elif vec["status"] == "refused" and line != 1 + vec["refusedAt"]:
                problems.append("%s: spelled %r the refusal names row %d but the offending row is %d" % (
                    what, spelled, line, 1 + vec["refusedAt"]))
    return problems


def interleaved_formats(report):
    """
    Two data formats that exist at the same time, each created before the other is configured (two CIDs loaded row by row):
    what a property accepts is the business of the format it is set on -- 'none' is a line delimiter of fixed data only.
    """
    from cutplace import data, errors
    for first, second in (("fixed", "delimited"), ("delimited", "fixed"), ("fixed", "fixed"), ("delimited", "ods")):
        formats = [data.DataFormat(first), data.DataFormat(second)]
        for data_format in formats:
            for value in ("none", "lf", "any"):
                fresh = data.DataFormat(data_format.format)   # (a third one, created in between)
                del fresh
                if data_format.format not in ("fixed", "delimited"):
                    continue
                report.replayed += 1
                try:
                    probe = data.DataFormat(data_format.format)
                    other = data.DataFormat(second if data_format.format == first else first)   # created after the probe
                    probe.set_property("line_delimiter", value)
                    outcome = "accepted"
                    del other
                except errors.InterfaceError:
                    outcome = "refused"
                except Exception as error:  # noqa
                    outcome = "%s: %s" % (type(error).__name__, str(error)[:80])
                wanted = "accepted" if (value != "none" or data_format.format == "fixed") else "refused"
                if outcome != wanted:
                    report.violation("c11", {"interleaved": [first, second], "format": data_format.format, "value": value}, wanted, outcome,
                                     "line delimiter %r set on a %s format while a %s format created after it exists: %s, must be %s" % (
                                         value, data_format.format, second if data_format.format == first else first, outcome, wanted))


def replay(behaviour, report=None):
    core.import_repo()
    return _job(behaviour)


def run(tier, report):
    core.import_repo()
    vectors = []
    for cfg, label in (("DataFormat_single.cfg", "every property x every format x every spelling / code point / malformed value"),
                       ("DataFormat_pairs.cfg", "all pairs of settings that can contradict each other")) + (
            () if tier == "quick" else (("DataFormat_triples.cfg", "all triples of settings that can contradict each other"),
                                        ("DataFormat_allpairs.cfg", "all pairs of all settings"))):
        result = core.tlc("MCDataFormat", cfg, timeout=7000)
        core.require_coverage(result, ["SetProperty", "Validate", "ValidateAgain"], cfg)
        report.add_tlc("DataFormat %s: %s" % (cfg, label), result)
        vectors += result.by_tag("VEC")
    outcomes = core.parallel_map(_job, vectors, chunk=200)
    shapes = {}
    for vec, problems in zip(vectors, outcomes):
        report.replayed += 6
        report.count(core.json.dumps([vec["fmt"], vec["settings"]], sort_keys=True), vec["status"] != "valid" or len(vec["settings"]) > 1)
        if vec["status"] == "inconsistent":
            report.sample({"format": vec["fmt"], "settings": vec["settings"], "predicted": vec["status"]}, limit=3)
        elif vec["status"] == "valid" and len(report.samples) < 6 and vec["settings"][0]["v"].get("sp") in ("escaped", "symbolic"):
            report.sample({"format": vec["fmt"], "settings": vec["settings"], "predicted": vec["status"]}, limit=6)
        for problem in problems:
            shape = problem.split(": ", 1)[1][:50] + str([s["prop"] for s in vec["settings"]])
            shapes[shape] = shapes.get(shape, 0) + 1
            if shapes[shape] <= 1:
                report.violation("c11", vec, {"status": vec["status"], "attrs": vec["attrs"]}, None, problem)
            else:
                report.violations.append({"what": problem})
    if not report.violations:
        for vec in vectors:
            if vec["status"] == "valid" and vec["settings"][0]["prop"] == "item_delimiter":
                corrupted = core.json.loads(core.json.dumps(vec))
                corrupted["attrs"]["item_delimiter"] = [corrupted["attrs"]["item_delimiter"][0] + 1]
                if not _job(corrupted):
                    core.selftest_failed("C11: a corrupted predicted item delimiter was not noticed")
                break
    interleaved_formats(report)
    report.exhaustive = True
    report.assumptions += [
        "spellings the documentation itself makes ambiguous are not asked for: a single digit is a decimal code, white space "
        "cannot be given literally as item delimiter",
        "the concrete texts (case variants, encoding names, malformed values) are the harness's; the specification supplies "
        "applicability, denotation, defaults and consistency",
    ]
    return report.finish(rule="one case = (format, one or two property settings with abstract values) from TLC, replayed in 3 spelling "
                              "variants through DataFormat.set_property/validate and through Cid.read; non-trivial = refused, "
                              "inconsistent, or two settings; distinct by format and settings")
