"""
C16 -- Excel cells render as documented text and the requested sheet is read.

spec/Excel.tla: TLC explores workbooks (cell kinds x boundary values, ragged
rows, 1..3 sheets x requested sheet 1..4) and states what every cell must be
read as; the 1900 date system is computed two independent ways and checked
for consistency. Every behaviour is written with xlsxwriter (dates as raw
serial numbers with a date format, so that the specification and not the
producer is the oracle of the serial -> civil mapping) and read through
rowio.excel_rows and cutplace.rows; string tables also go through
XlsxRowWriter and back.
"""
import os

from harness import core


def text(chars):
    return "".join(chars)


EPOCH_1904 = 1462  # days between the two date systems of workbooks (1900-01-00 and 1904-01-01)


def write_book(path, book, target, date_1904=False):
    """date_1904: the workbook counts days from 1904; date serials are shifted so that the cells denote the same days."""
    import xlsxwriter
    workbook = xlsxwriter.Workbook(path, {"date_1904": True} if date_1904 else {})
    shift = EPOCH_1904 if date_1904 else 0
    date_format = workbook.add_format({"num_format": "yyyy-mm-dd"})
    datetime_format = workbook.add_format({"num_format": "yyyy-mm-dd hh:mm:ss"})
    time_format = workbook.add_format({"num_format": "hh:mm:ss"})
    for number, sheet in enumerate(book, 1):
        worksheet = workbook.add_worksheet("S%d" % number)
        if number != target and not sheet:
            worksheet.write_string(0, 0, "decoy %d" % number)
            worksheet.write_number(1, 1, number)
            continue
        for y, row in enumerate(sheet):
            for x, cell in enumerate(row):
                kind = cell["k"]
                if kind == "string":
                    worksheet.write_string(y, x, text(cell["text"]))
                elif kind == "empty":
                    pass
                elif kind == "whole":
                    value = int(text(cell["digits"])) * (-1 if cell["neg"] else 1)
                    worksheet.write_number(y, x, value)
                elif kind == "dyadic":
                    value = cell["num"] / float(2 ** cell["exp"]) * (-1 if cell["neg"] else 1)
                    worksheet.write_number(y, x, value)
                elif kind == "bool":
                    worksheet.write_boolean(y, x, cell["b"])
                elif kind == "date":
                    worksheet.write_number(y, x, cell["serial"] - shift, date_format)
                elif kind == "datetime":
                    worksheet.write_number(y, x, cell["serial"] - shift + cell["sec"] / 86400.0, datetime_format)
                elif kind == "time":
                    worksheet.write_number(y, x, cell["sec"] / 86400.0, time_format)
                elif kind == "datetimems":
                    worksheet.write_number(y, x, cell["serial"] - shift + (cell["sec"] + cell["ms"] / 1000.0) / 86400.0, datetime_format)
                elif kind == "timems":
                    worksheet.write_number(y, x, (cell["sec"] + cell["ms"] / 1000.0) / 86400.0, time_format)
                else:
                    raise core.MachineryError("cell kind %r" % kind)
    workbook.close()


def _job(job):
    vec, folder = job
    import cutplace
    from cutplace import errors, rowio
    os.makedirs(folder, exist_ok=True)
    path = os.path.join(folder, "b%d.xlsx" % os.getpid())
    problems = []
    write_book(path, vec["book"], vec["wanted"])
    expected = [[text(cell) for cell in row] for row in vec["expected"]]
    what = "workbook with %d sheet(s), sheet %d requested, cells %s" % (
        len(vec["book"]), vec["wanted"], [[c["k"] for c in row] for row in (vec["book"][vec["wanted"] - 1] if vec["wanted"] <= len(vec["book"]) else [])])
    try:
        rows, disturbed = core.read_independently(lambda: rowio.excel_rows(path, vec["wanted"]))
        outcome = "rows"
        if disturbed is not None and disturbed != rows:
            problems.append("%s: read again beside an abandoned reader and in lockstep with another one, excel_rows returns %r "
                            "instead of %r" % (what, disturbed, rows))
    except errors.DataFormatError as error:
        rows, outcome = str(error), "DataFormatError"
    except Exception as error:  # noqa
        rows, outcome = "%s: %s" % (type(error).__name__, error), "crash"
    if vec["status"] == "nosheet":
        if outcome != "DataFormatError":
            problems.append("%s: requesting a missing sheet gives %s %r instead of a data-format error" % (what, outcome, rows))
        return problems
    if outcome != "rows":
        problems.append("%s: excel_rows fails with %s: %s" % (what, outcome, rows))
        return problems
    if rows != expected:
        problems.append("%s: excel_rows returns %r but the sheet holds %r" % (what, rows, expected))
        return problems
    # the same days in a workbook of the 1904 date system (old Macintosh workbooks): the same texts
    dated = [cell for row in (vec["book"][vec["wanted"] - 1] if vec["wanted"] <= len(vec["book"]) else []) for cell in row
             if cell["k"] in ("date", "datetime", "datetimems")]
    if dated and all(cell["serial"] > EPOCH_1904 + 1 for cell in dated):
        write_book(path, vec["book"], vec["wanted"], date_1904=True)
        try:
            rows_1904 = list(rowio.excel_rows(path, vec["wanted"]))
        except Exception as error:  # noqa
            rows_1904 = "%s: %s" % (type(error).__name__, error)
        if rows_1904 != expected:
            problems.append("%s, workbook of the 1904 date system: excel_rows returns %r but the sheet holds %r" % (what, rows_1904, expected))
        write_book(path, vec["book"], vec["wanted"])
    if expected and expected[0] and all(row[0] != "" for row in expected):
        cid = cutplace.Cid()
        cid.read("cid", [["D", "Format", "excel"], ["D", "Sheet", str(vec["wanted"])]] + [
            ["F", "c%d" % i, "", "X"] for i in range(len(expected[0]))])
        try:
            got = list(cutplace.rows(cid, path))
            if got != expected:
                problems.append("%s: cutplace.rows with Sheet %d returns %r instead of %r" % (what, vec["wanted"], got, expected))
        except Exception as error:  # noqa
            problems.append("%s: cutplace.rows fails with %s: %s" % (what, type(error).__name__, error))
    return problems


SPECIAL_TEXTS = [
    # texts a spreadsheet producer might take for something else than text
    "=1+1", "{=1+1}", "+1", "-1", "@x", "mailto:joe@example.com", "internal:Sheet1!A1", "external:c:/x/y.xlsx", "http://example.com/",
    "https://example.com/?q=" + "a" * 2100, "ftp://example.com", "file://x", "#N/A", "#DIV/0!", "TRUE", "false", "1e5", "1.0", "007",
    "0x10", "2020-02-29", "12:00:00", "1/2", "50%", "_x0041_", "a_x000D_b", "\x01", "\x00b", "é€名", "<&>\"'", " lead", "trail ",
    "x\ty", "line\nbreak", "x" * 32767,
]


def writer_round_trip(report, folder):
    """
    A table of strings written with XlsxRowWriter reads back identically: every special text alone and beside others, random
    tables; a text no Excel cell can hold (more than 32767 characters) is refused
    with a data-format error and nothing of its row is written.
    """
    from cutplace import errors, rowio
    rng = core.rng(16)
    alphabet = ["a", "B", " ", "é", "<&>", "=1+1", "1.0", "007", "x\ty", "line\nbreak", "'", '"']
    tables = [[[text, "end"]] for text in SPECIAL_TEXTS] + [[["first", text]] for text in SPECIAL_TEXTS]
    tables.append([[text] for text in SPECIAL_TEXTS])
    tables.append([list(SPECIAL_TEXTS[:20]), list(reversed(SPECIAL_TEXTS[:20]))])
    for index in range(60):
        width = rng.randrange(1, 5)
        pool = alphabet if index % 2 else alphabet + SPECIAL_TEXTS[:-1]
        tables.append([[rng.choice(pool) + rng.choice(["", "z"]) for _ in range(width)] for _ in range(rng.randrange(0, 6))])
    for index, table in enumerate(tables):
        path = os.path.join(folder, "w%d.xlsx" % index)
        try:
            with rowio.XlsxRowWriter(path) as writer:
                writer.write_rows(table)
            back = list(rowio.excel_rows(path))
        except Exception as error:  # noqa -- writing and reading back a table of strings must not fail
            back = "%s: %s" % (type(error).__name__, error)
        report.replayed += 1
        if back != table:
            report.violation("c16", {"writer_table": table}, table, back,
                             "XlsxRowWriter: table %r reads back as %r" % (_short(table), back if isinstance(back, str) else _short(back)))
            break
        os.remove(path)
    # a row is any sequence of items: tuples and one-shot iterables are written like lists
    path = os.path.join(folder, "iterables.xlsx")
    report.replayed += 1
    try:
        with rowio.XlsxRowWriter(path) as writer:
            writer.write_row(("t", "u"))
            writer.write_row(str(number) for number in range(2))
            writer.write_row(iter(["i", "j"]))
            writer.write_rows(iter([["k", "l"], ("m", "n")]))
        back = list(rowio.excel_rows(path))
    except Exception as error:  # noqa
        back = "%s: %s" % (type(error).__name__, error)
    expected = [["t", "u"], ["0", "1"], ["i", "j"], ["k", "l"], ["m", "n"]]
    if back != expected:
        report.violation("c16", {"writer_table": "rows given as tuple, generator, iterator"}, expected, back,
                         "XlsxRowWriter: rows given as tuple, generator and iterator read back as %r instead of %r" % (back, expected))
    # what the file format cannot hold is refused, not truncated; the writer goes on with the next row
    too_long = "y" * 32768
    for position in (0, 1):
        path = os.path.join(folder, "long%d.xlsx" % position)
        row = ["ok", "ok"]
        row[position] = too_long
        report.replayed += 1
        with rowio.XlsxRowWriter(path) as writer:
            writer.write_row(["before", "x"])
            try:
                writer.write_row(row)
                outcome = "accepted"
            except errors.DataFormatError:
                outcome = "refused"
            except Exception as error:  # noqa
                outcome = "%s: %s" % (type(error).__name__, str(error)[:100])
            writer.write_row(["after", "z"])
        back = list(rowio.excel_rows(path))
        expected = [["before", "x"], ["after", "z"]]
        if outcome != "refused" or back != expected:
            report.violation("c16", {"writer_table": "text of 32768 characters in column %d" % (position + 1)}, expected, None,
                             "XlsxRowWriter: a row with a text of 32768 characters (an Excel cell holds 32767) is %s and the file "
                             "reads back as %r instead of %r" % (outcome, _short(back), expected))


    # a sheet has 16384 columns: a row with exactly that many cells reads back, one cell more is refused (and not cut off)
    for count in (16384, 16385):
        path = os.path.join(folder, "wide%d.xlsx" % count)
        wide = ["c%d" % number for number in range(count)]
        report.replayed += 1
        with rowio.XlsxRowWriter(path) as writer:
            writer.write_row(["before", "x"])
            try:
                writer.write_row(wide)
                outcome = "accepted"
            except errors.DataFormatError:
                outcome = "refused"
            except Exception as error:  # noqa
                outcome = "%s: %s" % (type(error).__name__, str(error)[:100])
            writer.write_row(["after", "z"])
        back = list(rowio.excel_rows(path))
        if count == 16384:
            pad = [""] * (count - 2)
            expected, wanted = [["before", "x"] + pad, wide, ["after", "z"] + pad], "accepted"
        else:
            expected, wanted = [["before", "x"], ["after", "z"]], "refused"
        if outcome != wanted or back != expected:
            report.violation("c16", {"writer_table": "row of %d cells" % count}, wanted, outcome,
                             "XlsxRowWriter: a row of %d cells (a sheet has 16384 columns) is %s and the file reads back with rows "
                             "of %s cells instead of %s" % (count, outcome, [len(r) for r in back], [len(r) for r in expected]))
        os.remove(path)


def tall_sheet(report, folder):
    """A sheet has 1048576 rows: the row after the last one is refused with a data-format error instead of being dropped."""
    from cutplace import errors, rowio
    path = os.path.join(folder, "tall.xlsx")
    writer = rowio.XlsxRowWriter(path)
    writer.workbook.constant_memory = True
    report.replayed += 1
    try:
        for number in range(1048576):
            writer.write_row(["r"])
        try:
            writer.write_row(["one too many"])
            outcome = "accepted"
        except errors.DataFormatError:
            outcome = "refused"
        except Exception as error:  # noqa
            outcome = "%s: %s" % (type(error).__name__, str(error)[:100])
    finally:
        writer._workbook = None  # (the file itself is not needed: nothing is saved)
    if outcome != "refused":
        report.violation("c16", {"writer_table": "1048577 rows"}, "refused", outcome,
                         "XlsxRowWriter: row 1048577 (a sheet has 1048576 rows) is %s" % outcome)


def hidden_sheets(report, folder):
    """
    'The sheet that is read is the one the Sheet property requests': the N-th sheet of the workbook, whether it or the sheets
    before it are visible, hidden or very hidden; a number beyond the last sheet is a data-format error.
    """
    import itertools
    import cutplace
    import xlsxwriter
    from cutplace import errors, rowio
    for count in (2, 3):
        for states in itertools.product(("visible", "hidden", "veryHidden"), repeat=count):
            if "visible" not in states:
                continue  # (a workbook needs a visible sheet)
            path = os.path.join(folder, "hidden.xlsx")
            workbook = xlsxwriter.Workbook(path)
            for number, state in enumerate(states, 1):
                sheet = workbook.add_worksheet("S%d" % number)
                sheet.write_string(0, 0, "sheet %d" % number)
                if state == "hidden":
                    sheet.hide()
                elif state == "veryHidden":
                    sheet.very_hidden()
            workbook.worksheets()[states.index("visible")].activate()
            workbook.close()
            for wanted in range(1, count + 2):
                report.replayed += 1
                cid = cutplace.Cid()
                cid.read("cid", [["D", "Format", "excel"], ["D", "Sheet", str(wanted)], ["F", "note"]])
                expected = [["sheet %d" % wanted]] if wanted <= count else "DataFormatError"
                for name, read in (("rowio.excel_rows", lambda: list(rowio.excel_rows(path, wanted))), ("rows()", lambda: list(cutplace.rows(cid, path)))):
                    try:
                        got = read()
                    except errors.DataFormatError:
                        got = "DataFormatError"
                    except Exception as error:  # noqa
                        got = "%s: %s" % (type(error).__name__, error)
                    if got != expected:
                        report.violation("c16", {"sheets": list(states), "wanted": wanted}, expected, got,
                                         "workbook with sheets %s, Sheet %d: %s gives %r but must give %r" % (list(states), wanted, name, got, expected))
                        return
    report.notes["hidden_sheets"] = "workbooks of 2 and 3 sheets, every combination of visible / hidden / very hidden, every sheet number"


def _short(table):
    return [[cell if len(cell) <= 40 else "%s... (%d characters)" % (cell[:20], len(cell)) for cell in row] for row in table]


def shortest_digits(x):
    """Number of significant digits of the shortest decimal text that reads back as exactly x (found by trying 1..17)."""
    for precision in range(1, 18):
        if float("%.*g" % (precision, x)) == x:
            return precision
    return 17


def significant_digits(text):
    mantissa = text.lower().lstrip("-").split("e")[0].replace(".", "").lstrip("0")
    return len(mantissa.rstrip("0")) or 1


def finite_floats(report, folder):
    """
    'Other numbers as the shortest text denoting the same value' for finite floats outside what TLC can hold: the oracle is
    the definition itself (the text reads back as the same value and no shorter one does), not repr().
    """
    import xlsxwriter
    from cutplace import rowio
    rng = core.rng(161)
    values = [10.0 ** e for e in (-300, -100, -20, -10, -7, -5, -4, 15, 16, 17, 20, 22, 23, 100, 300)]
    values += [1.5e300, 2.5e-10, 1.25e20, 123456789.125e10, 0.1, 0.2, 1 / 3.0, 2 / 3.0, 1e21 + 1e5, 5e-324, 1.7976931348623157e308]
    values += [rng.uniform(-1, 1) * 10.0 ** rng.randrange(-30, 30) for _ in range(150)]
    values += [-v for v in values[:20]]
    # a workbook file stores numbers as decimal text with 16 significant digits (xlsxwriter writes "%.16G"): that is the value
    values = [float("%.16G" % v) for v in values if abs(v) < 1e308]
    path = os.path.join(folder, "floats.xlsx")
    workbook = xlsxwriter.Workbook(path)
    sheet = workbook.add_worksheet()
    for y, value in enumerate(values):
        sheet.write_number(y, 0, value)
    workbook.close()
    rows = list(rowio.excel_rows(path))
    for value, row in zip(values, rows):
        report.replayed += 1
        text = row[0]
        try:
            same = float(text) == value
        except ValueError:
            same = False
        if not same or significant_digits(text) != shortest_digits(value) or (value == int(value) and abs(value) < 1e15 and "." in text):
            report.violation("c16", {"float": repr(value)}, "shortest text denoting %r" % value, text,
                             "numeric cell %r is read as %r, which %s" % (
                                 value, text, "denotes another value" if not same else "is not the shortest text for it"))
    report.notes["finite_floats"] = "%d finite floats (powers of ten 1e-300..1e300, extremes, seeded random) checked by round trip " \
                                    "and minimal digit count (outside the TLA+ model: TLC has no floating point)" % len(values)


def replay(behaviour, report=None):
    core.import_repo()
    if "writer_table" in behaviour or "float" in behaviour:
        return []
    folder = core.workdir("c16replay")
    try:
        return _job((behaviour, folder))
    finally:
        core.cleanup(folder)


def run(tier, report):
    core.import_repo()
    rng = core.rng(16)
    folder = core.workdir("c16")
    try:
        first = None
        for name, cap in (("cells", None), ("pairs", None), ("shapes", 5000 if tier == "quick" else None)) + (
                () if tier == "quick" else (("sweep", None),)):
            result = core.tlc("MCExcelSweep" if name == "sweep" else "MCExcel", "Excel_%s.cfg" % name, timeout=3000)
            core.require_coverage(result, ["AddRow", "Start", "ReadRow", "Finish"], "Excel/" + name)
            report.add_tlc("Excel %s" % name, result)
            vectors = sorted(result.by_tag("VEC"), key=core.json.dumps)
            if cap is not None and len(vectors) > cap:
                vectors = rng.sample(vectors, cap)
            first = first or vectors
            outcomes = core.parallel_map(_job, [(vec, folder) for vec in vectors], chunk=50)
            shapes = {}
            for vec, problems in zip(vectors, outcomes):
                report.replayed += 1
                report.count(core.json.dumps([vec["book"], vec["wanted"]]), len(vec["book"]) > 1 or any(
                    c["k"] not in ("string", "empty") for sheet in vec["book"] for row in sheet for c in row))
                if len(report.samples) < 6 and vec["expected"] and vec["book"][vec["wanted"] - 1][0][0]["k"] in ("date", "dyadic", "time"):
                    report.sample({"cell": vec["book"][vec["wanted"] - 1][0][0], "must_read_as": text(vec["expected"][0][0])})
                for problem in problems:
                    shape = problem.split(": ", 1)[1][:30] + str(len(vec["book"]))
                    shapes[shape] = shapes.get(shape, 0) + 1
                    if shapes[shape] <= 2:
                        report.violation("c16", vec, vec["expected"], None, problem)
                    else:
                        report.violations.append({"what": problem})
        pinned = core.tlc("MCExcel", "Excel_pinned.cfg", expect_violation=True, coverage=False)
        if pinned.violated != "ReadsTheRequestedSheet":
            raise core.MachineryError("ReadsRequestedSheet = FALSE (D3) gave no counterexample")
        report.notes["expected_counterexamples"] = [{"cfg": "Excel_pinned.cfg", "deviation": "D3 always reads the first sheet"}]
        writer_round_trip(report, folder)
        tall_sheet(report, folder)
        hidden_sheets(report, folder)
        finite_floats(report, folder)
        if not report.violations:
            for vec in first:
                if vec["expected"] and vec["expected"][0][0]:
                    corrupted = dict(vec)
                    corrupted["expected"] = [[cell + ["!"] for cell in row] for row in vec["expected"]]
                    if not _job((corrupted, folder)):
                        core.selftest_failed("C16: a corrupted expected text was not noticed")
                    break
    finally:
        core.cleanup(folder)
    report.exhaustive = tier == "thorough"
    report.assumptions += [
        "'shortest text denoting the same value' is decided by the specification for whole numbers up to 2^53 and dyadic "
        "fractions with <= 4 fractional bits only (TLC has no floating point); other finite floats are checked by the harness alone "
        "(round trip and minimal digit count)",
        "workbooks are produced with xlsxwriter; xlrd is the reader the code uses",
    ]
    return report.finish(rule="one case = (workbook of 1..3 sheets with ragged rows of cells of the pool, requested sheet) from TLC, "
                              "written as .xlsx and read back; non-trivial = several sheets or a non-string cell; distinct by workbook "
                              "and requested sheet")
