"""
C17 -- the storage format of CID and data does not change the verdict.

In the specification storage is not a variable of CidLoad.tla or Session.tla
at all (TLC proves nothing interesting about it); the models contribute the
expected interface definition (fields, checks, format, in order) and the
expected per-row verdicts, and the substance of the check is the replay:
(a) every valid CID TLC generates is stored as CSV text, ODS and XLSX and
    loaded with cutplace.Cid(path): the three definitions must equal the
    predicted one and each other, attribute by attribute;
(b) every table TLC generates for Session.tla is stored as delimited text,
    ODS and XLSX and read under CIDs that differ only in Format, with columns
    of every field type: per-row verdicts and returned values must equal the
    prediction in all three.
"""
import csv
import io
import os

from harness import core, c09, odslib, session_props

TYPE_PAIRS = [("Integer", "Decimal"), ("DateTime", "Choice"), ("Pattern", "RegEx"), ("Text", "Integer"), ("Decimal", "DateTime")]
RULE = {"Integer": "0...99", "Decimal": "0...99.5", "DateTime": "YYYY-MM-DD", "Choice": "red, green, blue, black", "Pattern": "a?",
        "RegEx": "b[0-9]", "Text": ""}


def ok_cell(kind, value):
    return {"Integer": "%d" % value, "Decimal": "%d.5" % value, "DateTime": "2020-02-%02d" % value,
            "Choice": ["red", "green", "blue", "black"][value % 4], "Pattern": "a%d" % value, "RegEx": "b%d" % value,
            "Text": "v%d.0" % value}[kind]  # (text that looks like a number with a fractional suffix must stay text)


def bad_cell(kind, value):
    return {"Integer": "x%d" % value, "Decimal": "1.2.3", "DateTime": "2021-02-29", "Choice": "Red", "Pattern": "b%d" % value,
            "RegEx": "ab", "Text": ""}[kind]  # (Text rejects only the empty cell: the field is not allowed to be empty)


RID_PREFIXES = ["\ufeff", "", "\u00a0", "'", "=", "\u200b", "#", "@", "-", "+"]


def write_table(path, storage, table):
    if storage == "csv":
        with open(path, "w", newline="", encoding="utf-8") as target:
            csv.writer(target).writerows(table)
    elif storage == "ods":
        odslib.write_ods(path, odslib.content_xml([odslib.plain_sheet(table)]))
    elif storage == "ods-runs":
        odslib.write_ods(path, odslib.content_xml([odslib.compact_sheet(table, notes=True)]))
    elif storage == "ods-groups":
        # the first row is a "row to repeat" (table:table-header-rows), all others are grouped (one table:table-row-group)
        rows = odslib.plain_sheet(table)
        for index, row in enumerate(rows):
            row["wrap"] = "header" if index == 0 else "group"
        odslib.write_ods(path, odslib.content_xml([rows]))
    else:
        import xlsxwriter
        workbook = xlsxwriter.Workbook(path)
        sheet = workbook.add_worksheet()
        for y, row in enumerate(table):
            for x, cell in enumerate(row):
                if cell != "":
                    sheet.write_string(y, x, cell)
        workbook.close()


def describe(cid):
    data_format = cid.data_format
    attributes = {k: v for k, v in sorted(data_format.__dict__.items()) if k not in ("_is_valid", "_VALID_LINE_DELIMITER_TEXTS")}
    attributes["_allowed_characters"] = str(data_format.allowed_characters)
    return {"format": attributes,
            "fields": [[f.field_name, type(f).__name__, f.is_allowed_to_be_empty, str(f.length), f.rule, f.example]
                       for f in cid.field_formats],
            "checks": [[name, type(cid.check_map[name]).__name__, cid.check_map[name].rule] for name in cid.check_names]}


def _cid_job(job):
    vec, folder = job
    import cutplace
    os.makedirs(folder, exist_ok=True)
    fmt, rows = c09.concrete_rows(vec, 0)
    rows = [row for row in rows if row != []]  # (an empty row cannot be stored in a spreadsheet file)
    width = max(len(row) for row in rows)
    problems = []
    described = {}
    for storage, suffix in (("csv", ".csv"), ("ods", ".ods"), ("xlsx", ".xlsx")):
        path = os.path.join(folder, "cid%d%s" % (os.getpid(), suffix))
        write_table(path, storage, [row + [""] * (width - len(row)) if storage != "csv" else row for row in rows])
        try:
            described[storage] = describe(cutplace.Cid(path))
        except Exception as error:  # noqa
            problems.append("CID %r stored as %s cannot be loaded: %s: %s" % (rows, storage, type(error).__name__, error))
    if problems:
        return problems
    want_fields = [c09.NAMES[i] for i in vec["fields"]]
    want_types = [c09.TYPES[i] + "FieldFormat" for i in vec["fields"]]
    want_checks = [c09.c_row(i, "none")[1] for i in vec["checks"]]
    for storage, got in described.items():
        if [f[0] for f in got["fields"]] != want_fields or [f[1] for f in got["fields"]] != want_types:
            problems.append("CID stored as %s declares fields %s but %s %s were written" % (storage, got["fields"], want_fields, want_types))
        if [c[0] for c in got["checks"]] != want_checks:
            problems.append("CID stored as %s declares checks %s but %s were written" % (storage, got["checks"], want_checks))
        if got["format"].get("_format") != fmt:
            problems.append("CID stored as %s has format %s instead of %s" % (storage, got["format"].get("_format"), fmt))
    for storage in ("ods", "xlsx"):
        if described[storage] != described["csv"]:
            difference = {k: (described["csv"][k], described[storage][k]) for k in described["csv"] if described["csv"][k] != described[storage][k]}
            problems.append("the same CID loads differently from csv and %s: %s" % (storage, str(difference)[:500]))
    return problems


def _data_job(job):
    vec, folder, index = job
    import cutplace
    os.makedirs(folder, exist_ok=True)
    entry = vec["hist"][0]
    table = entry["run"]["ds"]
    kinds = TYPE_PAIRS[index % len(TYPE_PAIRS)]
    header = vec["header"]
    concrete = []
    for number, row in enumerate(table["rows"], 1):
        cells = [ok_cell(kinds[i], row["v"][i]) if row["c"][i] == "ok" else bad_cell(kinds[i], row["v"][i]) for i in range(2)]
        # two optional columns at the end, empty in every second row (the first row has them, so that the sheet keeps its width)
        # the first cell of every row starts with a character that text tools like to treat specially; it is an ordinary
        # character of a text cell and must come back from every storage
        concrete.append([RID_PREFIXES[(number - 1 + index) % len(RID_PREFIXES)] + "%d" % number] + cells
                        + (["n", "n"] if number % 2 else ["", ""]))
    expected_out = entry["fresh"]["out"]
    problems = []
    for storage, fmt, suffix in (("csv", "delimited", ".csv"), ("ods", "ods", ".ods"), ("ods-runs", "ods", ".ods"),
                                 ("ods-groups", "ods", ".ods"), ("xlsx", "excel", ".xlsx")):
        cid = cutplace.Cid()
        cid_rows = [["D", "Format", fmt]] + ([["D", "Encoding", "utf-8"]] if fmt == "delimited" else []) + (
            [["D", "Header", str(header)]] if header else []) + [
            ["F", "rid"]] + [["F", "f%d" % (i + 1), "", "", "", kinds[i], RULE[kinds[i]]] for i in range(2)] + [
            ["F", "note1", "", "X"], ["F", "note2", "", "X"]]
        for number, check in enumerate(vec["checks"], 1):
            if check["t"] == "u":
                cid_rows.append(["C", "check %d" % number, "IsUnique", ", ".join("f%d" % k for k in check["key"])])
            else:
                cid_rows.append(["C", "check %d" % number, "DistinctCount", "f%d %s %d" % (
                    check["f"], {"lt": "<", "le": "<=", "eq": "==", "ge": ">=", "gt": ">", "ne": "!="}[check["op"]], check["n"])])
        cid.read("cid", cid_rows)
        path = os.path.join(folder, "data%d%s" % (os.getpid(), suffix))
        write_table(path, storage, concrete)
        out = []
        values = []
        try:
            for item in cutplace.rows(cid, path, on_error="yield"):
                if isinstance(item, Exception):
                    # the model counts cells from 1 and knows nothing of the leading rid column; errors of a check are
                    # reported for the row (first cell)
                    cell = item.location.cell if isinstance(item, cutplace.errors.FieldValueError) else item.location.cell + 1
                    out.append(["err", item.location.line + 1, cell, type(item).__name__])
                else:
                    out.append(["row", int(item[0].lstrip("".join(RID_PREFIXES)))])
                    values.append(item)
            closing = "none"
        except cutplace.errors.CheckError:
            closing = "CheckError"
        except Exception as error:  # noqa
            problems.append("table %r as %s under Format %s fails with %s: %s" % (concrete, storage, fmt, type(error).__name__, error))
            continue
        want = [item[:4] if item[0] == "err" else item for item in expected_out]
        if out != want:
            problems.append("columns %s, table %r stored as %s: verdicts are %s but must be %s" % (kinds, concrete, storage, out, want))
        if closing != entry["fresh"]["exc"]["cls"]:
            problems.append("columns %s, table %r stored as %s: end of data gives %s but must give %s" % (
                kinds, concrete, storage, closing, entry["fresh"]["exc"]["cls"]))
        accepted = [concrete[item[1] - 1] for item in want if item[0] == "row"]
        if values != accepted:
            problems.append("columns %s, table stored as %s: returned values are %r but %r were stored" % (kinds, storage, values, accepted))
    return problems


def midnight_texts(report, folder):
    """
    Text cells that look like a date with a time, under a date-only and under a date-and-time DateTime field: the verdicts are
    the same for all storages. (A native Excel date cell reads as 'YYYY-MM-DD 00:00:00' -- C16; for those the Excel format
    drops the midnight before a date-only field sees it. Known finding D60: it does so for plain text cells too.)
    """
    import cutplace
    table = [["1", "2020-02-01"], ["2", "2020-02-02 00:00:00"], ["3", "2020-02-03 00:00:01"], ["4", "2020-02-04 00:00:00 00:00:00"]]
    for rule, want in (("YYYY-MM-DD", ["ok", "bad", "bad", "bad"]), ("YYYY-MM-DD hh:mm:ss", ["bad", "ok", "ok", "bad"])):
        for storage, fmt, suffix in (("csv", "delimited", ".csv"), ("ods", "ods", ".ods"), ("xlsx", "excel", ".xlsx")):
            cid = cutplace.Cid()
            cid.read("cid", [["D", "Format", fmt]] + ([["D", "Encoding", "utf-8"]] if fmt == "delimited" else []) + [
                ["F", "rid"], ["F", "day", "", "", "", "DateTime", rule]])
            path = os.path.join(folder, "midnight" + suffix)
            write_table(path, storage, table)
            report.replayed += 1
            got = ["bad" if isinstance(item, Exception) else "ok" for item in cutplace.rows(cid, path, on_error="yield")]
            if got != want:
                # the deviation as recorded: exactly the text with one midnight suffix is accepted by the date-only Excel field
                pinned = rule == "YYYY-MM-DD" and storage == "xlsx" and got == ["ok", "ok", "bad", "bad"]
                report.violation("c17", {"table": table, "rule": rule, "storage": storage}, want, got,
                                 "DateTime field %r, text cells %r stored as %s: verdicts are %s but must be %s as for the other "
                                 "storages" % (rule, [row[1] for row in table], storage, got, want),
                                 signature="excel-midnight-text" if pinned else None)


def carriage_returns(report, folder):
    """Text cells that hold a carriage return (alone, or in front of a line feed): the same values and verdicts from
    delimited text, ODS and Excel -- under a Text field whose length the cell meets exactly."""
    import cutplace
    table = [["1", "ab"], ["2", "a\rb"], ["3", "a\r\nb"], ["4", "\rab"], ["5", "ab\r"], ["6", "a\nb"]]
    want = [["ok", row] if len(row[1]) == 3 else ["bad"] for row in table]
    for storage, fmt, suffix in (("csv", "delimited", ".csv"), ("ods", "ods", ".ods"), ("xlsx", "excel", ".xlsx")):
        cid = cutplace.Cid()
        cid.read("cid", [["D", "Format", fmt]] + ([["D", "Encoding", "utf-8"]] if fmt == "delimited" else []) + [
            ["F", "rid"], ["F", "note", "", "", "3", "Text"]])
        path = os.path.join(folder, "cr" + suffix)
        write_table(path, storage, table)
        report.replayed += 1
        try:
            got = [["bad"] if isinstance(item, Exception) else ["ok", item] for item in cutplace.rows(cid, path, on_error="yield")]
        except Exception as error:  # noqa
            got = "%s: %s" % (type(error).__name__, error)
        if got != want:
            report.violation("c17", {"table": table, "storage": storage, "cr": True}, want, got,
                             "Text field of length 3, cells with carriage returns %r stored as %s: read as %r but %r was stored" % (
                                 [row[1] for row in table], storage, got, want))


def cid_cells_with_blanks(report, folder):
    """
    CID cells whose blanks count (a blank as thousands separator, an example and a check description that start with one)
    and a rule with blanks around it: 'the same CID contents stored as CSV text,
    ODS or Excel load into equivalent interface definitions' -- and into the one written down here.
    """
    import cutplace
    rows = [["D", "Format", "delimited"], ["D", "Item delimiter", ";"], ["D", "Decimal separator", ","], ["D", "Thousands separator", " "],
            ["F", "amount", "1 234,5", "", "", "Decimal"], ["F", "note", " n/a", "X"], ["F", "code", "", "X", "1...2", "Choice", " a, b "],
            ["C", " note is unique ", "IsUnique", "note"]]
    want = {"thousands": " ", "decimal": ",", "fields": [["amount", "DecimalFieldFormat", False, "None", "", "1 234,5"],
                                                          ["note", "TextFieldFormat", True, "None", "", " n/a"],
                                                          ["code", "ChoiceFieldFormat", True, "1...2", "a, b", None]],
            "checks": [[" note is unique ", "IsUniqueCheck", "note"]]}
    width = max(len(row) for row in rows)
    data = "1 234,5; n/a;a\r\n17;x;b\r\n1 2,5;y;\r\n"
    for storage, suffix in (("csv", ".csv"), ("ods", ".ods"), ("xlsx", ".xlsx")):
        path = os.path.join(folder, "blanks" + suffix)
        write_table(path, storage, [row + [""] * (width - len(row)) if storage != "csv" else row for row in rows])
        report.replayed += 1
        try:
            cid = cutplace.Cid(path)
            described = describe(cid)
            got = {"thousands": described["format"]["_thousands_separator"], "decimal": described["format"]["_decimal_separator"],
                   "fields": described["fields"], "checks": described["checks"]}
            verdicts = ["bad" if isinstance(item, Exception) else "ok" for item in cutplace.rows(cid, io.StringIO(data, newline=""), on_error="yield")]
        except Exception as error:  # noqa
            got, verdicts = "%s: %s" % (type(error).__name__, error), None
        if got != want or verdicts != ["ok", "ok", "ok"]:
            report.violation("c17", {"cid_blanks": storage}, want, got,
                             "CID %r stored as %s loads as %r (verdicts for three good rows: %r) but %r was written" % (rows, storage, got, verdicts, want))


def replay(behaviour, report=None):
    core.import_repo()
    folder = core.workdir("c17replay")
    try:
        if "label" in behaviour:
            return _cid_job((behaviour, folder))
        return _data_job((behaviour, folder, behaviour.get("index", 0)))
    finally:
        core.cleanup(folder)


def run(tier, report):
    core.import_repo()
    rng = core.rng(17)
    folder = core.workdir("c17")
    try:
        # (a) CIDs
        result = core.tlc("MCCidLoad", "CidLoad_deep.cfg" if tier == "thorough" else "CidLoad_quick.cfg", timeout=7000)
        report.add_tlc("CidLoad (source of valid CIDs with all field types, checks, row-level rewrites)", result)
        cids = sorted([v for v in result.by_tag("VEC") if v["status"] == "accepted"], key=core.json.dumps)
        outcomes = core.parallel_map(_cid_job, [(vec, folder) for vec in cids], chunk=20)
        shapes = {}

        def record(vec, problems):
            for problem in problems:
                shape = problem[:60]
                shapes[shape] = shapes.get(shape, 0) + 1
                if shapes[shape] <= 2:
                    report.violation("c17", vec, None, None, problem)
                else:
                    report.violations.append({"what": problem})

        for vec, problems in zip(cids, outcomes):
            report.replayed += 3
            report.count("cid:" + core.json.dumps(vec["rows"]), True)
            record(vec, problems)
        if cids:
            report.sample({"cid_rows": c09.concrete_rows(cids[len(cids) // 2], 0)[1], "stored_as": ["csv", "ods", "xlsx"]})
        # (b) data
        cfg = "Session_c04_h0.cfg" if tier == "quick" else "Session_c04_quick.cfg"
        result = core.tlc(session_props.MODULES[cfg], cfg, timeout=7000)
        report.add_tlc("Session %s (source of tables with predicted per-row verdicts)" % cfg, result)
        tables = [v for v in result.by_tag("VEC") if v["hist"][0]["run"]["mode"] == "yield" and v["hist"][0]["run"]["ds"]["fault"] == 0
                  and all(r["w"] == "ok" for r in v["hist"][0]["run"]["ds"]["rows"]) and v["hist"][0]["run"]["ds"]["rows"]]
        tables = sorted(tables, key=core.json.dumps)
        if tier == "quick" and len(tables) > 400:
            tables = rng.sample(tables, 400)
        jobs = [(vec, folder, index) for index, vec in enumerate(tables)]
        outcomes = core.parallel_map(_data_job, jobs, chunk=10)
        for (vec, _, index), problems in zip(jobs, outcomes):
            report.replayed += 5
            report.count("data:%d:" % (index % len(TYPE_PAIRS)) + core.json.dumps(vec["hist"][0]["run"]["ds"]), True)
            stored = dict(vec)
            stored["index"] = index
            record(stored, problems)
        midnight_texts(report, folder)
        carriage_returns(report, folder)
        cid_cells_with_blanks(report, folder)
        if not report.violations and tables:
            corrupted = core.json.loads(core.json.dumps(tables[0]))
            out = corrupted["hist"][0]["fresh"]["out"]
            if out:
                out[0] = ["err", out[0][1], 1, "FieldValueError", 0, 0] if out[0][0] == "row" else ["row", out[0][1]]
                if not _data_job((corrupted, folder, 0)):
                    core.selftest_failed("C17: a corrupted predicted verdict was not noticed")
    finally:
        core.cleanup(folder)
    report.exhaustive = False
    report.assumptions += [
        "storage independence is structural in the model (no action reads the storage): the specification supplies the expected "
        "definition and verdicts, the nine-fold comparison is done by the replay",
        "ragged tables are not compared (a spreadsheet file pads every row to the sheet's width)",
        "cells are written as strings; native spreadsheet numbers and dates are the subject of C16",
    ]
    return report.finish(rule="one case = a valid CID (stored three ways) or a table with typed columns (stored three ways under CIDs "
                              "differing only in Format); all non-trivial; distinct by abstract CID / by table and column types")
