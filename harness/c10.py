"""
C10 -- CID and data problems surface as cutplace errors, never as internal failures.

spec/Hostile.tla enumerates where a hostile value goes (every cell of every
row kind of a CID per field / check type, every data cell per column type; one
at a time, pairs in the thorough tier) and fixes the legal outcome alphabet:
Cid.read -> ok | InterfaceError, rows / validate -> ok | DataError, command
line -> exit code 0..3. The harness owns the strings behind each hostile
class and the byte-level corruption of containers.
"""
import csv
import io
import os
import shutil

from harness import core

HOSTILE = {
    "unterminatedQuote": ['"abc', "'x", '"""'],
    "strayOperator": ["+*", "-", "<=", "..", "=="],
    "hugeNumber": ["99999999999999999999999999", "-99999999999999999999999999", "1114112"],
    "negative": ["-5", "-0"],
    "nonAscii": ["äöü€", "名前"],
    "nan": ["NaN", "nan", "sNaN"],
    "infinity": ["Infinity", "-inf"],
    "empty": [""],
    "blank": ["   ", "\t", "target,\u00a0target", "target\u00a0< 3", "\u00a0", "\u2028x\u0085"],
    "nul": ["\x00", "a\x00b"],
    "backslash": ["\\", "\\x"],
    "badRegex": ["(", "[a", "*"],
    "lineBreak": ["a\nb", "\r\n"],
    "longText": ["x" * 5000],
    "code": ["__import__('os').getcwd()", "lambda: 0"],
    "brackets": [")(", "]", "{"],
    "percent": ["%s %d", "%", "%%Y"],
    "ellipsisOnly": ["...", "…", ":", "1...2...3"],
    "commaOnly": [",", ",,", "1,,2"],
    "hexLike": ["0x", "0xZZ", "0b2"],
    "exponent": ["1e999", "1e", "1E-999"],
    "quoteOnly": ['"', "'", '""'],
    "unicodeEscape": ['"\\u12"', "'\\N{x}'", '"\\x"'],
    "keyword": ["class", "None", "lambda"],
    "openRanges": ["...3, 4...", "...", "1..., ...2", ":", "...3, ...4"],
    "stringPrefix": ["u'a'...u'z'", "b'a'", "r'\\d'", "f'{x}'", "u'a'"],
    "beyondUnicode": ["0x110000", "1114112", "0xffffffff", "'\\U00110000'", "4294967296"],
    "internalName": ["is valid", "is_valid", "validate", "set property", "_header", "__class__", "__init__", "format"],
    "hugeDigits": ["0x" + "f" * 4000, "9" * 5000, "-" + "9" * 5000, "0..." + "9" * 5000, "1e" + "9" * 30,
                   "999999999999999...", "1...3, 999999999999999...", "5000..."],
    "hugeRepetition": ["a{99999999999}", "a{1,99999999999}", "a{65536}"],
    "indentedLines": ["a\n  b\n c", "a\n\tb\n  c", "(\n", "a,\n b"],
    "codecName": ["hex", "utf-16", "idna", "rot13", "base64", "zlib", "punycode", "undefined", "utf-7", "utf-32", "unicode_escape",
                  "utf_8_sig", "charmap", "a\x00b", "utf-16-le"],
    "repeatedPlaceholder": ["DD.DD.YYYY", "YYYY-YYYY", "hh:hh", "YY YYYY", "%d %d", "MM.MM.MM"],
    "tokenizerBytes": ["\u00e4,\r\u00f6", "x\r\u00e9", "...\n\x00", " 1\n\x00", "\r\u20ac"],
    "hugeExponent": ["1e-3000000000...1", "1e-3000000000, 5...3", "1e3000000000", "0...1e-99999999999"],
    "deepNesting": ["(" * 1000 + "a" + ")" * 1000, "[" * 500 + "a" + "]" * 500, "((((" * 200],
    "lineContinuation": ["\\\ntarget < 3", "target \\\n < 3", "\\\n"],
    "longList": [", ".join("c%05d" % number for number in range(20000)), ", ".join(str(2 * number) for number in range(2000))],  # (ranges compare every item with every other one: kept short)
    # a count expression that is fine for count 0 (the test at declaration) and cannot be evaluated for the count the data give
    "countDependent": ["target <= 12 / (count - 1)", "target <= 12 / (count - 2)", "target <= 12 / (count - 3)", "other <= 12 / (count - 1)",
                       "other <= 12 / (count - 2)", "target < (1, 2, 3)[count * 2]", "target < 2.0 ** (400 * count)"],
    "builtinName": ["target or exit(7)", "target == id", "len", "target < len(dir())", "print"],
}
RULES = {"Integer": "0...99", "Decimal": "0...99.5", "Choice": "a, b", "Constant": "a", "DateTime": "YYYY-MM-DD", "Pattern": "a*",
         "RegEx": "a+", "Text": ""}
GOOD = {"Integer": "7", "Decimal": "7.5", "Choice": "a", "Constant": "a", "DateTime": "2020-02-29", "Pattern": "ab", "RegEx": "aa",
        "Text": "t"}
D_PROPERTIES = ["item delimiter", "quote character", "escape character", "encoding", "allowed characters", "line delimiter", "header",
                "decimal separator", "thousands separator", "quoting", "skip initial space", "sheet"]
F_COLUMN = {"marker": 0, "name": 1, "example": 2, "empty": 3, "length": 4, "type": 5, "rule": 6}
D_COLUMN = {"marker": 0, "name": 1, "value": 2}
C_COLUMN = {"marker": 0, "description": 1, "type": 2, "rule": 3}


def base_rows(fmt, field_type):
    fixed = fmt == "fixed"
    rows = [["D", "Format", fmt], ["D", "Header", "0"],
            ["F", "target", "", "", "12" if fixed else "", field_type, RULES[field_type]],
            ["F", "other", "", "X", "3" if fixed else "", "Text", ""]]
    return rows


def build(vec, picks):
    """CID rows and one data row for a vector; picks chooses the concrete string per hostile class."""
    fmt = vec["fmt"]
    field_type = "Text"
    for target in vec["targets"]:
        if target["type"] in RULES:
            field_type = target["type"]
    rows = base_rows(fmt, field_type)
    checks = [["C", "target is unique", "IsUnique", "target"], ["C", "few others", "DistinctCount", "other < 5"]]
    data = [GOOD[field_type], "o"]
    for target, cls, pick in zip(vec["targets"], vec["classes"], picks):
        text = HOSTILE[cls][pick % len(HOSTILE[cls])]
        if target["where"] == "data":
            data[0] = text
            continue
        kind, cell = target["cell"]
        if kind == "D" and target["type"] in D_PROPERTIES:
            rows[1] = ["D", target["type"].capitalize(), text]
        elif kind == "D":
            rows[1][D_COLUMN[cell]] = text
        elif kind == "F":
            rows[2][F_COLUMN[cell]] = text
        else:
            index = 0 if target["type"] == "IsUnique" else 1
            checks[index][C_COLUMN[cell]] = text
    return fmt, rows + checks, data


def data_text(fmt, data):
    if fmt == "fixed":
        return data[0].ljust(12)[:max(12, len(data[0]))] + data[1].ljust(3) + "\n"
    stream = io.StringIO(newline="")
    csv.writer(stream).writerow(data)
    return stream.getvalue()


def data_file(fmt, data, folder):
    """The data row (twice) as a spreadsheet file of the CID's format; None if the producer cannot store the text."""
    os.makedirs(folder, exist_ok=True)
    if fmt == "excel":
        import xlsxwriter
        path = os.path.join(folder, "data_%d.xlsx" % os.getpid())
        try:
            workbook = xlsxwriter.Workbook(path, {"strings_to_numbers": False, "strings_to_formulas": False, "strings_to_urls": False})
            sheet = workbook.add_worksheet()
            for y in range(2):
                for x, cell in enumerate(data):
                    if cell != "":
                        if sheet.write_string(y, x, cell) != 0:
                            workbook.close()
                            return None
            workbook.close()
        except Exception:  # noqa
            return None
        return path
    from harness import odslib
    path = os.path.join(folder, "data_%d.ods" % os.getpid())
    odslib.write_ods(path, odslib.content_xml([odslib.plain_sheet([data, data])]))
    return path


def classify(error):
    from cutplace import errors
    if isinstance(error, errors.InterfaceError):
        return "InterfaceError"
    if isinstance(error, errors.DataError):
        return "DataError"
    return "other:%s: %s" % (type(error).__name__, str(error)[:120])


class _Exhausted(Exception):
    pass


def _alarm(*_):
    raise _Exhausted("no answer within 60 s")


def _limits():
    """Once per worker process: an address space of 4 GB and an alarm clock, so that a hostile value that makes the code
    allocate or compute without bound ends as an observation (MemoryError / no answer) instead of taking the machine down."""
    import resource
    import signal
    if not getattr(_limits, "done", False):
        soft, hard = resource.getrlimit(resource.RLIMIT_AS)
        resource.setrlimit(resource.RLIMIT_AS, (4 * 2 ** 30, hard))
        signal.signal(signal.SIGALRM, _alarm)
        _limits.done = True
    return signal


def _job(job):
    signal = _limits()
    signal.alarm(60)
    try:
        return _job_unguarded(job)
    except _Exhausted as error:
        vec, picks = job
        return ["format %s, hostile %s: %s" % (vec["fmt"], [(t["where"], t["cell"], t["type"], c) for t, c in zip(vec["targets"], vec["classes"])], error)]
    except SystemExit as error:
        vec, picks = job
        return ["format %s, hostile %s: lets escape SystemExit: %s (the process would end)" % (
            vec["fmt"], [(t["where"], t["cell"], t["type"], c) for t, c in zip(vec["targets"], vec["classes"])], error.code)]
    finally:
        signal.alarm(0)


def _job_unguarded(job):
    vec, picks = job
    import cutplace
    fmt, rows, data = build(vec, picks)
    problems = []
    what = "format %s, hostile %s" % (fmt, [(t["where"], t["cell"], t["type"], c) for t, c in zip(vec["targets"], vec["classes"])])
    cid = cutplace.Cid()
    try:
        cid.read("cid", rows)
        cid_outcome = "ok"
    except Exception as error:  # noqa
        cid_outcome = classify(error)
    if cid_outcome.startswith("other") or cid_outcome == "DataError":
        # (a DataError while loading a CID is a cutplace error, but the property asks for an interface error for CID problems)
        if cid_outcome.startswith("other"):
            problems.append("%s: Cid.read(%r) lets escape %s" % (what, rows, cid_outcome[6:]))
        else:
            problems.append("%s: Cid.read(%r) answers a problem in the CID with a data error" % (what, rows))
    if cid_outcome == "ok" and fmt in ("delimited", "fixed"):
        text = data_text(fmt, data)
        for mode in ("yield", "raise"):
            try:
                for item in cutplace.rows(cid, io.StringIO(text, newline=""), on_error=mode):
                    if isinstance(item, Exception) and classify(item) != "DataError":
                        problems.append("%s: rows() yields %s for data %r" % (what, classify(item), text))
            except Exception as error:  # noqa
                # (a problem of the CID may show only when data are validated -- a count expression that cannot be evaluated
                # for the count the data give: "an interface error (problem in the CID) or a data error")
                if classify(error) not in ("DataError", "InterfaceError"):
                    problems.append("%s: rows(on_error=%s) lets escape %s for data %r under CID %r" % (
                        what, mode, classify(error)[6:], text, rows))
        try:
            cutplace.validate(cid, io.StringIO(text, newline=""))
        except Exception as error:  # noqa
            if classify(error) not in ("DataError", "InterfaceError"):
                problems.append("%s: validate() lets escape %s for data %r" % (what, classify(error)[6:], text))
        if fmt == "delimited" and any(t["where"] == "data" for t in vec["targets"]):
            # the same cell under a declared length it does not have (the cell then shows up in the message about the length)
            for length in ("1" if len(data[0]) != 1 else "2", "...1" if len(data[0]) > 1 else "2...", "%d..." % (len(data[0]) + 1)):
                narrow_rows = [list(row) for row in rows]
                narrow_rows[2][F_COLUMN["length"]] = length
                narrow_cid = cutplace.Cid()
                try:
                    narrow_cid.read("cid", narrow_rows)
                except Exception:  # noqa
                    continue
                try:
                    for item in cutplace.rows(narrow_cid, io.StringIO(text, newline=""), on_error="yield"):
                        if isinstance(item, Exception) and classify(item) != "DataError":
                            problems.append("%s: rows() yields %s for data %r under length %r" % (what, classify(item), text, length))
                except Exception as error:  # noqa
                    if classify(error) not in ("DataError", "InterfaceError"):
                        problems.append("%s: rows() lets escape %s for data %r under CID %r" % (what, classify(error)[6:], text, narrow_rows))
        # the same data as a file (the declared encoding matters only there)
        folder = core.workdir("c10file%d" % os.getpid())
        try:
            path = os.path.join(folder, "data.txt")
            with open(path, "wb") as target_file:
                target_file.write(text.encode("utf-8", errors="replace"))
            try:
                for item in cutplace.rows(cid, path, on_error="yield"):
                    if isinstance(item, Exception) and classify(item) != "DataError":
                        problems.append("%s: rows(path) yields %s" % (what, classify(item)))
            except Exception as error:  # noqa
                if classify(error) not in ("DataError", "InterfaceError"):
                    problems.append("%s: rows(path) lets escape %s for data %r under CID %r" % (what, classify(error)[6:], text, rows))
        finally:
            core.cleanup(folder)
    if cid_outcome == "ok" and fmt in ("excel", "ods") and any(t["where"] == "data" for t in vec["targets"]):
        # the hostile text as a cell of a real spreadsheet file
        folder = core.workdir("c10sheet%d" % os.getpid())
        try:
            path = data_file(fmt, data, folder)
            if path is not None:
                for mode in ("yield", "raise"):
                    try:
                        for item in cutplace.rows(cid, path, on_error=mode):
                            if isinstance(item, Exception) and classify(item) != "DataError":
                                problems.append("%s: rows() yields %s for the %s cell %r" % (what, classify(item), fmt, data[0]))
                    except Exception as error:  # noqa
                        if classify(error) not in ("DataError", "InterfaceError"):
                            problems.append("%s: rows(on_error=%s) lets escape %s for the %s cell %r under CID %r" % (
                                what, mode, classify(error)[6:], fmt, data[0], rows))
                from cutplace import applications
                cid_path = os.path.join(folder, "cid.csv")
                if not any("\x00" in cell for row in rows for cell in row):
                    with open(cid_path, "w", newline="", encoding="utf-8") as cid_file:
                        csv.writer(cid_file).writerows(rows)
                    try:
                        code = applications.main(["cutplace", cid_path, path])
                    except SystemExit as error:
                        code = error.code
                    except Exception as error:  # noqa
                        code = "exception %s: %s" % (type(error).__name__, error)
                    if code not in (0, 1, 2, 3):
                        problems.append("%s: the command line answers %r for the %s cell %r" % (what, code, fmt, data[0]))
        finally:
            core.cleanup(folder)
    return problems


def cli_job(job):
    """The command line on a CID file and a data file holding the hostile values: exit code 0..3, never 4."""
    signal = _limits()
    signal.alarm(60)
    try:
        return _cli_job_unguarded(job)
    except _Exhausted as error:
        return ["format %s, hostile %s: the command line: %s" % (job[0]["fmt"], job[0]["classes"], error)]
    except SystemExit as error:
        return ["format %s, hostile %s: the command line lets escape SystemExit: %s" % (job[0]["fmt"], job[0]["classes"], error.code)]
    finally:
        signal.alarm(0)


def _cli_job_unguarded(job):
    vec, picks, folder = job
    from cutplace import applications
    fmt, rows, data = build(vec, picks)
    if fmt not in ("delimited", "fixed"):
        return []
    if any("\x00" in cell for row in rows for cell in row):
        return []  # a NUL cannot be stored in the CSV form of a CID ("line contains NUL" is csv's own refusal)
    os.makedirs(folder, exist_ok=True)
    cid_path = os.path.join(folder, "cid_%d.csv" % os.getpid())
    data_path = os.path.join(folder, "data_%d.txt" % os.getpid())
    with open(cid_path, "w", newline="", encoding="utf-8") as cid_file:
        csv.writer(cid_file).writerows(rows)
    with open(data_path, "w", newline="", encoding="cp1252", errors="replace") as data_file:
        data_file.write(data_text(fmt, data))
    try:
        code = applications.main(["cutplace", cid_path, data_path])
    except SystemExit as error:
        code = error.code
    except Exception as error:  # noqa
        code = "exception %s: %s" % (type(error).__name__, error)
    if code not in (0, 1, 2, 3):
        return ["format %s, hostile %s: the command line answers %r for CID %r and data %r" % (
            fmt, [(t["cell"], t["type"], c) for t, c in zip(vec["targets"], vec["classes"])], code, rows, data)]
    return []


def corrupted_containers(report, tier):
    """Truncate / flip bytes of real ODS and Excel files: reading must give rows or a data-format error."""
    from cutplace import errors, rowio
    sources = [("tests/data/valid_customers.ods", rowio.ods_rows), ("tests/data/valid_customers.xlsx", rowio.excel_rows),
               ("tests/data/valid_customers.xls", rowio.excel_rows)]
    folder = core.workdir("corrupt")
    step = 64 if tier == "quick" else 16
    try:
        for relative, reader in sources:
            path = os.path.join(core.REPO, relative)
            if not os.path.exists(path):
                continue
            with open(path, "rb") as source_file:
                original = source_file.read()
            suffix = os.path.splitext(path)[1]
            victims = []
            # every step-th byte, and every byte of the first 64 and the last 160 (local header; central directory end)
            offsets = sorted(set(range(0, len(original), step)) | set(range(0, min(64, len(original))))
                             | set(range(max(0, len(original) - 160), len(original))))
            for offset in offsets:
                victims.append(("truncated at %d" % offset, original[:offset]))
                flipped = bytearray(original)
                flipped[offset] ^= 0x55
                victims.append(("byte %d flipped" % offset, bytes(flipped)))
            for label, content in victims:
                victim = os.path.join(folder, "victim" + suffix)
                with open(victim, "wb") as victim_file:
                    victim_file.write(content)
                report.replayed += 1
                try:
                    for _ in reader(victim):
                        pass
                except errors.DataFormatError:
                    pass
                except Exception as error:  # noqa
                    key = "%s %s" % (suffix, type(error).__name__)
                    corrupted_containers.seen[key] = corrupted_containers.seen.get(key, 0) + 1
                    if corrupted_containers.seen[key] <= 1:
                        report.violation("c10", {"container": relative, "corruption": label}, "rows or DataFormatError", None,
                                         "%s %s: reading lets escape %s: %s" % (relative, label, type(error).__name__, str(error)[:200]),
                                         signature="container:%s:%s" % (suffix, type(error).__name__))
                    else:
                        report.violations.append({"what": key}) if not report._match_finding(
                            "container:%s:%s" % (suffix, type(error).__name__), "") else None
    finally:
        core.cleanup(folder)


corrupted_containers.seen = {}


def malformed_text_containers(report):
    """
    Delimited and fixed text that its reader must refuse, with the damage in the first line, in a later line and at the
    end, as str stream, as file (API) and through the command line; the same damage in a CID stored as CSV text.
    Outcome: rows or a data error (API), exit code 0 or 1 (command line), a CID or a cutplace error -- never anything else.
    """
    import cutplace
    from cutplace import applications, errors, interface
    good = "1,a\r\n"
    damages = {
        "stray character after a closing quote": '1,"jo"nes\r\n',
        "unterminated quote": '1,"jones\r\n',
        "unterminated quote at the very end": '1,"jones',
        "NUL character": "1,a\x00b\r\n",
        "lone carriage return inside an unquoted cell": "1,a\rb\r\n",
        "quote in the middle of an unquoted cell": '1,a"b"\r\n',
        "line without any content": "\r\n",
        "line with blanks only": "   \r\n",
        "byte order mark in front of the line": "\ufeff1,a\r\n",
        "byte order mark alone on the line": "\ufeff\r\n",
    }
    cid_rows = [["D", "Format", "delimited"], ["D", "Encoding", "utf-8"], ["F", "n", "", "", "", "Integer", "0...9"], ["F", "t", "", "X"]]
    fixed_rows = [["D", "Format", "fixed"], ["D", "Encoding", "utf-8"], ["D", "Line delimiter", "lf"], ["F", "n", "", "", "1", "Integer", "0...9"],
                  ["F", "t", "", "X", "3"]]
    fixed_damages = {"record that ends too early": "1ab", "wrong line delimiter": "1abc\r1abc\r", "missing line delimiter": "1abc1abc\n",
                     "surplus characters": "1abcd\n"}
    folder = core.workdir("c10text")
    try:
        cases = []
        for label, bad in sorted(damages.items()):
            for position, text in (("first line", bad + good), ("second line", good + bad), ("only line", bad),
                                   ("last of three", good + good + bad)):
                cases.append(("delimited", cid_rows, "%s (%s)" % (label, position), text.encode("utf-8")))
        for position, data in (("first line", b"1,\xff\xfe\r\n1,a\r\n"), ("second line", b"1,a\r\n1,\xff\r\n"), ("far down", b"1,a\r\n" * 3000 + b"\xc3\r\n")):
            cases.append(("delimited", cid_rows, "bytes that are not UTF-8 (%s)" % position, data))
        for label, text in sorted(fixed_damages.items()):
            for position, whole in (("first record", text), ("second record", "1abc\n" + text)):
                cases.append(("fixed", fixed_rows, "%s (%s)" % (label, position), whole.encode("utf-8")))
        cases.append(("fixed", fixed_rows, "bytes that are not UTF-8", b"1a\xffc\n"))
        cid_path = os.path.join(folder, "cid.csv")
        data_path = os.path.join(folder, "data.txt")
        for fmt, rows, label, data in cases:
            cid = cutplace.Cid()
            cid.read("cid", rows)
            with open(cid_path, "w", newline="", encoding="utf-8") as cid_file:
                csv.writer(cid_file).writerows(rows)
            with open(data_path, "wb") as data_file:
                data_file.write(data)
            attempts = [("rows(path, on_error=%s)" % mode, lambda mode=mode: list(cutplace.rows(cid, data_path, on_error=mode)))
                        for mode in ("raise", "yield", "continue")]
            attempts.append(("validate(path)", lambda: cutplace.validate(cid, data_path)))
            try:
                as_text = data.decode("utf-8")
                attempts.append(("rows(stream)", lambda: list(cutplace.rows(cid, io.StringIO(as_text, newline=""), on_error="yield"))))
            except UnicodeDecodeError:
                pass
            for name, attempt in attempts:
                report.replayed += 1
                try:
                    attempt()
                    outcome = "no error"
                except errors.DataError:
                    outcome = "DataError"
                except Exception as error:  # noqa
                    outcome = "%s: %s" % (type(error).__name__, str(error)[:150])
                if outcome not in ("DataError", "no error"):  # (what a reader tolerates is not C10's business)
                    report.violation("c10", {"container": fmt, "damage": label}, "rows or DataError", outcome,
                                     "%s data with %s: %s lets escape %s" % (fmt, label, name, outcome))
                    break
            report.replayed += 1
            try:
                code = applications.main(["cutplace", cid_path, data_path])
            except SystemExit as error:
                code = "SystemExit(%s)" % error.code
            except Exception as error:  # noqa
                code = "%s: %s" % (type(error).__name__, str(error)[:150])
            if code not in (0, 1):
                report.violation("c10", {"container": fmt, "damage": label, "cli": True}, "0 or 1", code,
                                 "%s data with %s: the command line answers %r" % (fmt, label, code))
        # the same damage in a CID stored as delimited text
        for label, bad in sorted(damages.items()):
            for position, text in (("first line", bad + "D,Format,delimited\r\nF,n\r\n"), ("later line", "D,Format,delimited\r\nF,n\r\n" + bad)):
                report.replayed += 2
                with open(cid_path, "w", newline="", encoding="utf-8") as cid_file:
                    cid_file.write(text)
                for name, attempt in (("create_cid_from_string", lambda: interface.create_cid_from_string(text)),
                                      ("Cid(path)", lambda: interface.Cid(cid_path))):
                    try:
                        attempt()
                        outcome = "accepted"
                    except errors.CutplaceError:
                        outcome = "cutplace error"
                    except Exception as error:  # noqa
                        outcome = "%s: %s" % (type(error).__name__, str(error)[:150])
                    if outcome not in ("cutplace error", "accepted"):
                        report.violation("c10", {"container": "cid", "damage": label}, "cutplace error", outcome,
                                         "CID stored as text with %s (%s): %s gives %s" % (label, position, name, outcome))
    finally:
        core.cleanup(folder)


def hostile_ods_documents(report):
    """
    Well-formed ODS documents with absurd numbers in them: repeat counts and blank counts of 10^18 and 10^20, text nested
    in a thousand spans. Reading must give rows or a data error (under the address-space limit of this process).
    """
    import cutplace
    from cutplace import errors, rowio
    from harness import odslib
    _limits()
    folder = core.workdir("c10ods")
    path = os.path.join(folder, "hostile.ods")
    good = odslib.plain_sheet([["a", "b"], ["c", "d"]])
    empty_first = odslib.plain_sheet([["", "b"], ["c", "d"]])

    def nested(depth):
        marked = odslib.content_xml([odslib.plain_sheet([["a", "MARK"], ["c", "d"]])])
        return marked.replace("MARK", "<text:span>" * depth + "b" + "</text:span>" * depth)

    cases = []
    for count in ("1000000000000000000", "99999999999999999999", "2147483648", "4294967296", "9" * 4300, "1" + "0" * 4300, "9" * 20000,
                  "0" * 4400 + "1"):  # (beyond 4300 digits Python's int() itself refuses the text)
        shown = count if len(count) < 40 else "<%d digits>" % len(count)
        cases.append(("table:number-columns-repeated=%s on a cell with text" % shown, odslib.content_xml([good], column_attribute=count)))
        cases.append(("table:number-columns-repeated=%s on an empty cell" % shown, odslib.content_xml([empty_first], column_attribute=count)))
        blanks = [{"rep": 1, "cells": [{"rep": 1, "paras": [[{"k": "markup", "xml": '<text:s text:c="%s"/>' % count}]]}]}]
        cases.append(("text:s with text:c=%s" % (count if len(count) < 40 else "<%d digits>" % len(count)), odslib.content_xml([blanks])))
    for depth in (600, 1200, 5000):
        cases.append(("cell text nested in %d text:span elements" % depth, nested(depth)))
    # every single count is one a spreadsheet can have; together they describe a row, or a text, of billions of items
    wide = [{"rep": 1, "cells": [{"rep": 1048576, "paras": [[{"k": "raw", "text": "a"}]] if index % 2 else []} for index in range(5000)]}]
    cases.append(("5000 cells in one row, each with table:number-columns-repeated=1048576", odslib.content_xml([wide])))
    long_text = [{"rep": 1, "cells": [{"rep": 1, "paras": [[{"k": "markup", "xml": '<text:s text:c="1048576"/>' * 5000}]]}]}]
    cases.append(("5000 text:s elements in one cell, each with text:c=1048576", odslib.content_xml([long_text])))
    cid = cutplace.Cid()
    cid.read("cid", [["D", "Format", "ods"], ["F", "a", "", "X"], ["F", "b", "", "X"]])
    try:
        for label, content in cases:
            odslib.write_ods(path, content)
            for name, read in (("rowio.ods_rows", lambda: [len(row) for row in rowio.ods_rows(path)]),
                               ("rows()", lambda: [1 for _ in cutplace.rows(cid, path, on_error="yield")])):
                report.replayed += 1
                try:
                    read()
                except errors.DataError:
                    pass
                except BaseException as error:  # noqa
                    report.violation("c10", {"container": "ods", "hostile": label}, "rows or DataError", None,
                                     "ODS document with %s: %s lets escape %s: %s" % (label, name, type(error).__name__, str(error)[:150]))
                    break
    finally:
        core.cleanup(folder)


def fixed_line_ends(report):
    """
    Fixed-width data under every line-delimiter setting x records ended by LF, CR, CR LF, a mixture or nothing, for fields of
    one and more characters (the reader looks one character ahead after a CR): rows or data errors, through the API and the
    command line (never exit code 4).
    """
    import cutplace
    from cutplace import applications, errors
    folder = core.workdir("c10fixed")
    try:
        for widths in ((1,), (1, 2), (2, 1), (3,)):
            for setting in ("any", "lf", "cr", "crlf", "none"):
                cid_rows = [["D", "Format", "fixed"], ["D", "Line delimiter", setting]] + [
                    ["F", "f%d" % number, "", "", str(width)] for number, width in enumerate(widths, 1)]
                cid = cutplace.Cid()
                cid.read("cid", cid_rows)
                cid_path = os.path.join(folder, "cid.csv")
                with open(cid_path, "w", newline="", encoding="utf-8") as cid_file:
                    csv.writer(cid_file).writerows(cid_rows)
                record = "".join("x" * width for width in widths)
                for ends in (("\n", "\n", "\n"), ("\r", "\r", "\r"), ("\r\n", "\r\n", "\r\n"), ("\r", "\n", "\r\n"), ("\r", "\r", ""),
                             ("", "", ""), ("\r", "", ""), ("\n", "\r", "\r")):
                    text = "".join(record + end for end in ends)
                    what = "fixed data %r, widths %s, line delimiter %s" % (text, list(widths), setting)
                    report.replayed += 2
                    try:
                        list(cutplace.rows(cid, io.StringIO(text, newline=""), on_error="yield"))
                    except errors.DataError:
                        pass
                    except Exception as error:  # noqa
                        report.violation("c10", {"fixed": text, "widths": list(widths), "line": setting}, "rows or DataError",
                                         type(error).__name__, "%s: rows() lets escape %s: %s" % (what, type(error).__name__, str(error)[:100]))
                        continue
                    data_path = os.path.join(folder, "data.txt")
                    with open(data_path, "w", newline="", encoding="utf-8") as data_file:
                        data_file.write(text)
                    code = applications.main(["cutplace", cid_path, data_path])
                    if code not in (0, 1):
                        report.violation("c10", {"fixed": text, "widths": list(widths), "line": setting, "cli": True}, "0 or 1", code,
                                         "%s: the command line answers %r" % (what, code))
    finally:
        core.cleanup(folder)


def codec_writers(report):
    """
    Every encoding name of the hostile pool that a CID accepts, as target encoding of a validating writer: rows with text the
    codec may refuse (non-ASCII, empty labels of idna, ...) are written or refused with a data error.
    """
    import tempfile
    import cutplace
    from cutplace import errors, validio
    folder = core.workdir("c10codec")
    try:
        for name in HOSTILE["codecName"] + ["ascii", "latin-1", "cp1252", "utf-8", "utf-16", "iso2022_jp", "big5", "cp037"]:
            for fmt_rows in ([["D", "Format", "delimited"]], [["D", "Format", "fixed"], ["D", "Line delimiter", "lf"]]):
                cid = cutplace.Cid()
                try:
                    cid.read("cid", fmt_rows + [["D", "Encoding", name], ["F", "a", "", "", "4" if fmt_rows[0][2] == "fixed" else ""]])
                except errors.InterfaceError:
                    continue
                for text in ("abcd", "a..b", ".", "\u00e4bcd", "\u20ac", "\u540d\u524d", "a\udc80b"):
                    report.replayed += 1
                    path = os.path.join(folder, "out.txt")
                    try:
                        with validio.Writer(cid, path) as writer:
                            writer.write_row([text])
                    except errors.DataError:
                        pass
                    except Exception as error:  # noqa
                        report.violation("c10", {"codec": name, "format": fmt_rows[0][2], "text": text}, "written or DataError", type(error).__name__,
                                         "%s writer with encoding %r, row [%r]: lets escape %s: %s" % (
                                             fmt_rows[0][2], name, text, type(error).__name__, str(error)[:120]))
    finally:
        core.cleanup(folder)


def unusual_streams(report):
    """Data handed over as stream objects whose `name` is no text (temporary files) or that have none: rows and data errors
    as for any other stream, and the text of an error can be built."""
    import tempfile
    import cutplace
    from cutplace import errors
    for fmt, rows, good, bad in (
            ("delimited", [["D", "Format", "delimited"], ["F", "n", "", "", "", "Integer", "0...9"]], "1\r\n2\r\n", "1\r\nx\r\n"),
            ("fixed", [["D", "Format", "fixed"], ["D", "Line delimiter", "lf"], ["F", "n", "", "", "1", "Integer", "0...9"]], "1\n2\n", "1\nx\n1")):
        cid = cutplace.Cid()
        cid.read("cid", rows)
        for label, factory in (("tempfile.TemporaryFile (name is a number)", lambda: tempfile.TemporaryFile("w+", newline="")),
                               ("tempfile.SpooledTemporaryFile (name is None)", lambda: tempfile.SpooledTemporaryFile(mode="w+", newline="")),
                               ("io.StringIO (no name)", lambda: io.StringIO(newline=""))):
            for text, expect_error in ((good, False), (bad, True)):
                report.replayed += 1
                stream = factory()
                try:
                    stream.write(text)
                    stream.seek(0)
                    items = list(cutplace.rows(cid, stream, on_error="yield"))
                    texts = [str(item) for item in items if isinstance(item, Exception)]
                    outcome = "rows" if not texts else "errors"
                except errors.DataError as error:
                    str(error)
                    outcome = "errors"
                except Exception as error:  # noqa
                    outcome = "%s: %s" % (type(error).__name__, str(error)[:120])
                finally:
                    stream.close()
                if outcome != ("errors" if expect_error else "rows"):
                    report.violation("c10", {"stream": label, "format": fmt}, "rows or data errors", outcome,
                                     "%s data from %s: %s" % (fmt, label, outcome))
            # the same objects as targets of a validating writer: an accepted row, a refused one, another accepted one
            from cutplace import validio
            report.replayed += 1
            stream = factory()
            try:
                with validio.Writer(cid, stream) as writer:
                    writer.write_row(["1"])
                    try:
                        writer.write_row(["x"])
                        outcome = "the refused row was written"
                    except errors.DataError as error:
                        str(error)
                        outcome = "ok"
                    writer.write_row(["2"])
                stream.seek(0)
                written = stream.read()
                if outcome == "ok" and written != good:
                    outcome = "the stream holds %r instead of %r" % (written, good)
            except Exception as error:  # noqa
                outcome = "%s: %s" % (type(error).__name__, str(error)[:120])
            finally:
                stream.close()
            if outcome != "ok":
                report.violation("c10", {"stream": label, "format": fmt, "writer": True}, "rows written, data error for the bad row", outcome,
                                 "%s data written to %s: %s" % (fmt, label, outcome))


def native_excel_cells(report):
    """
    Cells a workbook can hold that have no text of their own: date serials outside the calendar (negative, the ambiguous
    first two months of 1900, beyond year 9999), error values, formulas, huge numbers. Reading must give rows or a
    data-format error, directly and through a CID with every field type.
    """
    import cutplace
    import xlsxwriter
    from cutplace import errors, rowio
    folder = core.workdir("c10native")
    path = os.path.join(folder, "native.xlsx")
    serials = [-1, -0.5, 0, 0.25, 1, 59, 60, 60.5, 61, 2958465, 2958465.99999, 2958466, 3000000, 1e10, 1e300]
    cases = [("date serial %r" % v, lambda ws, wb, v=v: ws.write_number(0, 0, v, wb.add_format({"num_format": "yyyy-mm-dd"})))
             for v in serials]
    cases += [("date-time serial %r" % v, lambda ws, wb, v=v: ws.write_number(0, 0, v, wb.add_format({"num_format": "yyyy-mm-dd hh:mm:ss"})))
              for v in serials]
    cases += [("time serial %r" % v, lambda ws, wb, v=v: ws.write_number(0, 0, v, wb.add_format({"num_format": "hh:mm:ss"})))
              for v in serials]
    cases += [("error value %s" % e, lambda ws, wb, e=e: ws.write_formula(0, 0, "=NA()", None, e))
              for e in ("#DIV/0!", "#N/A", "#NAME?", "#NULL!", "#NUM!", "#REF!", "#VALUE!")]
    cases += [("formula with number result", lambda ws, wb: ws.write_formula(0, 0, "=1+1", None, 2)),
              ("formula with text result", lambda ws, wb: ws.write_formula(0, 0, '="a"&"b"', None, "ab")),
              ("formula with boolean result", lambda ws, wb: ws.write_formula(0, 0, "=TRUE()", None, True)),
              ("formatted blank", lambda ws, wb: (ws.write_blank(0, 0, None, wb.add_format({"bold": True})), ws.write_string(0, 1, "x"))),
              ("largest float", lambda ws, wb: ws.write_number(0, 0, 1.7976931348623157e308)),
              ("smallest float", lambda ws, wb: ws.write_number(0, 0, 5e-324)),
              ("negative zero", lambda ws, wb: ws.write_number(0, 0, -0.0))]
    try:
        for label, fill in cases:
            workbook = xlsxwriter.Workbook(path)
            fill(workbook.add_worksheet(), workbook)
            workbook.close()
            readers = [("rowio.excel_rows", lambda: list(rowio.excel_rows(path)))]
            for field_type in sorted(RULES):
                cid = cutplace.Cid()
                cid.read("cid", [["D", "Format", "excel"], ["F", "target", "", "" if field_type == "Constant" else "X", "", field_type, RULES[field_type]], ["F", "other", "", "X"]])
                readers.append(("rows() under a %s field" % field_type, lambda cid=cid: list(cutplace.rows(cid, path, on_error="yield"))))
            for name, read in readers:
                report.replayed += 1
                try:
                    for item in read():
                        if isinstance(item, Exception) and classify(item) != "DataError":
                            raise item
                except errors.DataError:
                    pass
                except Exception as error:  # noqa
                    report.violation("c10", {"container": "xlsx", "native": label}, "rows or DataError", None,
                                     "Excel cell with %s: %s lets escape %s: %s" % (label, name, type(error).__name__, str(error)[:200]))
                    break
    finally:
        core.cleanup(folder)


def replay(behaviour, report=None):
    core.import_repo()
    if "container" in behaviour:
        return []
    return _job((behaviour["vec"], behaviour["picks"])) + cli_job((behaviour["vec"], behaviour["picks"], core.workdir("c10replay")))


def run(tier, report):
    core.import_repo()
    rng = core.rng(10)
    result = core.tlc("MCHostile", "Hostile_single.cfg")
    core.require_coverage(result, ["LoadCid", "ReadData", "Cli"], "Hostile")
    report.add_tlc("Hostile: every CID cell kind x field / check type and every data cell x column type x 24 hostile classes x 4 formats", result)
    vectors = result.by_tag("VEC")
    jobs = []
    for vec in vectors:
        for pick in range(max(len(HOSTILE[c]) for c in vec["classes"])):
            jobs.append((vec, [pick] * len(vec["classes"])))
    if tier == "thorough":
        pairs = core.tlc("MCHostile", "Hostile_pairs.cfg", timeout=3000, coverage=False)
        report.add_tlc("Hostile pairs: two hostile cells at once (8 classes)", pairs)
        pair_vectors = sorted(pairs.by_tag("VEC"), key=core.json.dumps)
        for vec in rng.sample(pair_vectors, min(60000, len(pair_vectors))):
            jobs.append((vec, [rng.randrange(3), rng.randrange(3)]))
    outcomes = core.parallel_map(_job, jobs, chunk=200)
    shapes = {}

    def signature_of(job, problem):
        """Known finding D28: MemoryError while reading fixed data under a field length of at least 2^31."""
        vec, picks = job
        if vec["fmt"] != "fixed" or "Cid.read(" in problem or not ("MemoryError" in problem or "the command line answers 4" in problem):
            return None
        for target, cls, pick in zip(vec["targets"], vec["classes"], picks):
            if target["where"] == "cid" and list(target["cell"]) == ["F", "length"]:
                text = HOSTILE[cls][pick % len(HOSTILE[cls])]
                try:
                    if int(text, 0) >= 2 ** 31:
                        return "fixed-length-memory"
                except ValueError:
                    pass
        return None

    def record(job, problems):
        vec, picks = job
        for problem in problems:
            known = signature_of(job, problem)
            if known is not None:
                report.violation("c10", {"vec": vec, "picks": picks}, "ok | InterfaceError | DataError", None, problem, signature=known)
                continue
            escaped = problem.split("lets escape ")[-1].split(":")[0] if "lets escape" in problem else problem.split(": ", 1)[1][:40]
            shape = (escaped, tuple(tuple(t["cell"]) + (t["type"],) for t in vec["targets"]))
            shapes[shape] = shapes.get(shape, 0) + 1
            if shapes[shape] <= 1 and len([1 for s in shapes if s[0] == escaped]) <= 3:
                report.violation("c10", {"vec": vec, "picks": picks}, "ok | InterfaceError | DataError", None, problem)
            else:
                report.violations.append({"what": problem})

    for job, problems in zip(jobs, outcomes):
        report.replayed += 1
        report.count(core.json.dumps([job[0], job[1]], sort_keys=True), True)
        if len(report.samples) < 5 and job[0]["targets"][0]["cell"][1] in ("rule", "length", "cell"):
            report.sample({"format": job[0]["fmt"], "hostile": [(t["where"], t["cell"], t["type"], HOSTILE[c][p % len(HOSTILE[c])][:30])
                                                                 for t, c, p in zip(job[0]["targets"], job[0]["classes"], job[1])]})
        record(job, problems)
    # the command line (in worker processes: it configures global logging, and the workers carry the resource limits)
    folder = core.workdir("c10cli")
    try:
        cli_jobs = [(vec, picks, folder) for vec, picks in jobs if vec["fmt"] in ("delimited", "fixed")]
        cli_jobs = cli_jobs if tier == "thorough" else rng.sample(cli_jobs, min(2500, len(cli_jobs)))
        for job, problems in zip(cli_jobs, core.parallel_map(cli_job, cli_jobs, chunk=50)):
            report.replayed += 1
            record((job[0], job[1]), problems)
    finally:
        core.cleanup(folder)
    corrupted_containers(report, tier)
    native_excel_cells(report)
    malformed_text_containers(report)
    hostile_ods_documents(report)
    unusual_streams(report)
    codec_writers(report)
    fixed_line_ends(report)
    report.notes["hostile_spreadsheet_cells"] = "%d hostile data cells were also stored in real .xlsx / .ods files and read through " \
                                               "cutplace.rows (both modes) and the command line" % len(
        [1 for vec, _ in jobs if vec["fmt"] in ("excel", "ods") and any(t["where"] == "data" for t in vec["targets"])])
    report.notes["escaped_exception_shapes"] = {str(k): v for k, v in sorted(shapes.items(), key=lambda kv: -kv[1])[:40]}
    report.exhaustive = tier == "quick"
    report.assumptions += [
        "which hostile string breaks which cell is found by running the code; the specification supplies the enumeration of places "
        "and the legal outcome alphabet",
        "container corruption (truncation and byte flips of the repository's ODS / XLSX / XLS fixtures) is enumerated by the harness",
        "hostile data cells are tried in delimited and fixed form; spreadsheet data are covered by the corrupted containers",
    ]
    return report.finish(rule="one case = (format, target cell(s) with field / check type, hostile class(es), concrete string); all are "
                              "non-trivial; distinct by that tuple")
