"""
C03 -- empty, length and allowed-character guards hold for every field type.

spec/Fields.tla: TLC explores the guard pipeline of AbstractFieldFormat.validated
for every (format, empty flag, length declaration, allowed-characters
restriction, cell over {blank, allowed, disallowed}, verdict of the type's
value hook) and checks GuardsHold, the property stated from its text. Every
behaviour is replayed on all eight built-in field classes: the cell is spelled
for the type, the type's hook is measured in isolation (C03 is about the
guards "whatever the type and rule would otherwise say"), and validated() must
give the outcome the specification predicts for that hook verdict, calling
the hook exactly as often as predicted.
"""
import io

from harness import core

TYPES = {
    # name: (rule for (empty_allowed), character for class "a" in the two spellings)
    "Text": (lambda e: "", ("q", "w")),
    "Integer": (lambda e: "", ("1", "z")),
    "Decimal": (lambda e: "", ("1", "z")),
    "Choice": (lambda e: "1, 11, 111, 1111", ("1", "z")),
    "Constant": (lambda e: "" if e else "11", ("1", "z")),
    "DateTime": (lambda e: "YYYY", ("1", "z")),
    "Pattern": (lambda e: "1*", ("1", "z")),
    "RegEx": (lambda e: "1+", ("1", "z")),
}


def length_text(decl):
    def lim(o):
        return "" if o == [] else str(o[0])

    parts = []
    for lo, hi in decl:
        if lo == hi:
            parts.append(lim(lo))
        else:
            parts.append("%s...%s" % (lim(lo), lim(hi)))
    return ", ".join(parts)


_FORMATS = {}


def data_format(fmt, restricted):
    from cutplace import data
    key = (fmt, restricted)
    if key not in _FORMATS:
        result = data.DataFormat(fmt)
        if restricted != "none":
            result.set_property("allowed_characters", ALLOWED[restricted])
        result.validate()
        _FORMATS[key] = result
    return _FORMATS[key]


def make_field(type_name, fld, late=False):
    """
    (field, None) or (None, reason) -- reason 'skip' when the declaration is legitimately refused.
    late: the field is declared BEFORE the data format learns its allowed characters (a `D` row may follow the `F`
    rows in a CID); the guard must use the data format's range as it is when data are validated.
    """
    from cutplace import data, errors, fields
    rule = TYPES[type_name][0](fld["emptyAllowed"])
    cls = getattr(fields, type_name + "FieldFormat")
    try:
        if late:
            fresh = data.DataFormat(fld["fmt"])
            field = cls("f", fld["emptyAllowed"], length_text(fld["length"]), rule, fresh)
            fresh.set_property("allowed_characters", ALLOWED[fld["restricted"]])
            fresh.validate()
            return field, None
        return cls("f", fld["emptyAllowed"], length_text(fld["length"]), rule, data_format(fld["fmt"], fld["restricted"])), None
    except errors.InterfaceError:
        return None, "skip"
    except Exception as error:  # noqa
        return None, "%s field cannot be declared under format %s: %s: %s" % (type_name, fld["fmt"], type(error).__name__, error)


# the two shapes of an allowed-characters range, and the character that stands for class "d" under each: above every
# allowed character, or in a gap between allowed ones (above the blank and the digits, below the letters)
ALLOWED = {"range": "32...125", "gaps": "32, 48...57, 97...125", "noblank": "33...125"}
DISALLOWED = {"none": "~", "range": "~", "gaps": "@", "noblank": "~"}


def spell(cell, good_char, restricted="range"):
    return "".join(" " if c == "b" else ("\t" if c == "t" else (DISALLOWED[restricted] if c == "d" else good_char)) for c in cell)


def observe(field, fmt, text):
    """(outcome, hook calls, measured hook verdict) of field.validated(text)."""
    from cutplace import errors
    calls = [0]
    original = field.validated_value
    hook_input = text.strip(" ") if fmt == "fixed" else text  # (only blanks are padding)
    measured = None
    if hook_input:
        try:
            original(hook_input)
            measured = True
        except errors.FieldValueError:
            measured = False
        except Exception as error:  # noqa
            measured = "crash %s: %s" % (type(error).__name__, error)

    def counting(value):
        calls[0] += 1
        return original(value)

    field.validated_value = counting
    try:
        try:
            result = field.validated(text)
            outcome = ["accept", "empty" if result == field.empty_value and not hook_input else "native"]
        except errors.FieldValueError as error:
            outcome = ["reject", str(error)]
        except Exception as error:  # noqa
            outcome = ["crash", "%s: %s" % (type(error).__name__, error)]
    finally:
        del field.validated_value
    return outcome, calls[0], measured


def cross_format_probe():
    """
    After fields of other data formats (allowed characters 32...125, or none) have validated cells in this process, a
    field under a format that allows digits only must still refuse a letter and accept a digit.
    """
    from cutplace import data, errors, fields
    digits_only = data.DataFormat("delimited")
    digits_only.set_property("allowed_characters", "48...57")
    digits_only.validate()
    field = fields.TextFieldFormat("f", False, "", "", digits_only)
    problems = []
    for text, must_accept in (("q1", False), ("w", False), ("1z", False), ("11", True)):
        try:
            field.validated(text)
            accepted = True
        except errors.FieldValueError:
            accepted = False
        if accepted != must_accept:
            problems.append("Text field under allowed characters 48...57 (after other data formats were used in the same process): "
                            "cell %r is %s" % (text, "accepted" if accepted else "rejected"))
    # ranges written with quoted characters, in several data formats of one process: lower-case letters, upper-case
    # letters, both -- each format allows what IT declares
    for declared, accepts in (("'a'...'z'", {"abc": True, "ABC": False, "aBc": False}), ("'A'...'Z'", {"abc": False, "ABC": True, "aBc": False}),
                              ("'A'...'Z', 'a'...'z'", {"abc": True, "ABC": True, "aBc": True}), ('"a"..."z"', {"abc": True, "ABC": False}),
                              ("'A'...'z'", {"aBc": True, "a1": False})):
        letters = data.DataFormat("delimited")
        letters.set_property("allowed_characters", declared)
        letters.validate()
        field = fields.TextFieldFormat("f", False, "", "", letters)
        for text, must_accept in sorted(accepts.items()):
            try:
                field.validated(text)
                accepted = True
            except errors.FieldValueError:
                accepted = False
            if accepted != must_accept:
                problems.append("Text field under allowed characters %s (after other data formats were used in the same process): "
                                "cell %r is %s" % (declared, text, "accepted" if accepted else "rejected"))
    return problems


def excel_date_lengths():
    """
    The length guard under Format Excel for the cells a date cell of a workbook reads as ('YYYY-MM-DD 00:00:00', 19
    characters): a date-only DateTime field ignores the midnight when it looks at the VALUE; the number of characters of the
    cell is what the declared length is compared with, "whatever the type and rule would otherwise say".
    """
    from cutplace import data, errors, fields
    excel = data.DataFormat("excel")
    excel.validate()
    problems = []
    cell = "2020-02-29 00:00:00"
    for length, inside in (("10", False), ("19", True), ("1...12", False), ("...10", False), ("19...", True), ("", True), ("...19", True)):
        field = fields.DateTimeFieldFormat("day", False, length, "YYYY-MM-DD", excel)
        try:
            field.validated(cell)
            accepted = True
        except errors.FieldValueError:
            accepted = False
        if accepted != inside:
            problems.append("DateTime field (format excel, length %r, rule YYYY-MM-DD), cell %r of %d characters: is %s" % (
                length, cell, len(cell), "accepted" if accepted else "rejected"))
    return problems


def characters_at_the_edges():
    """
    'A non-empty cell is rejected when it contains any character outside the data format's allowed-characters range,
    whatever the type and rule would otherwise say' -- for characters that text tools treat specially at the start or the end
    of a text (line feed, carriage return, tab, other line and paragraph separators), at the first, a middle and the last
    position, alone and doubled, for every type and format.
    """
    from cutplace import data, errors, fields
    problems = []
    rules = {"Text": "", "Integer": "", "Decimal": "", "Choice": "abc, x", "Constant": "abc", "DateTime": "YYYY", "Pattern": "*", "RegEx": "(?s).*"}
    for fmt in ("delimited", "fixed", "excel", "ods"):
        for allowed in ("32...126", "' '...'~'", "32...126, 160...255"):
            data_format = data.DataFormat(fmt)
            data_format.set_property(data.KEY_ALLOWED_CHARACTERS, allowed)
            data_format.validate()
            for special in "\n\r\t\x0b\x0c\x1c\x1d\x1e\x85\u2028\u2029\x00\x7f":
                for cell in ("abc" + special, special, "abc" + special + special, special + "abc", "ab" + special + "c", special + "abc" + special):
                    for type_name, rule in sorted(rules.items()):
                        length = str(len(cell)) if fmt == "fixed" else ""
                        if type_name == "Constant" and fmt == "fixed":
                            continue  # (the declared width must be the constant's)
                        field = getattr(fields, type_name + "FieldFormat")("f", False, length, rule, data_format)
                        try:
                            field.validated(cell)
                        except errors.FieldValueError:
                            continue
                        except Exception as error:  # noqa
                            problems.append("%s field (format %s, allowed characters %s), cell %r: %s: %s" % (
                                type_name, fmt, allowed, cell, type(error).__name__, error))
                            continue
                        problems.append("%s field (format %s, allowed characters %s, rule %r), cell %r holds the character %r outside the "
                                        "allowed characters but is accepted" % (type_name, fmt, allowed, rule, cell, special))
    return problems


def _job(vec):
    """All eight types against one behaviour; returns list of problems."""
    problems = []
    if vec["undecided"]:
        return problems
    fld = vec["fld"]
    for type_name, late in [(name, late) for name in sorted(TYPES) for late in ((False, True) if fld["restricted"] != "none" else (False,))]:
        field, reason = make_field(type_name, fld, late)
        if field is None:
            if reason != "skip":
                problems.append(reason)
            continue
        for good_char in TYPES[type_name][1]:
            text = spell(vec["cell"], good_char, fld["restricted"])
            outcome, calls, measured = observe(field, fld["fmt"], text)
            if isinstance(measured, str):
                continue  # a crashing hook is C02 / C10 business
            if measured is not None and measured != vec["hook"]:
                continue  # this spelling realises the other hook verdict; its behaviour is a different vector
            if measured is None and not vec["hook"]:
                continue  # hook not applicable (empty after stripping): one of the two vectors is enough
            what = "%s field (format %s, empty allowed %s, length %r, allowed characters %s%s), cell %r" % (
                type_name, fld["fmt"], fld["emptyAllowed"], length_text(fld["length"]),
                ALLOWED.get(fld["restricted"], "any"), " set after the field was declared" if late else "", text)
            expected = vec["outcome"]
            if outcome[0] != expected[0]:
                problems.append("%s: is %sed (%s) but must be %sed (%s)" % (what, outcome[0], outcome[1], expected[0], expected[1]))
            elif outcome[0] == "accept" and outcome[1] != expected[1]:
                problems.append("%s: yields the %s value but must yield the %s value" % (what, outcome[1], expected[1]))
            if calls != vec["hookCalls"]:
                problems.append("%s: the rule was consulted %d time(s) but must be consulted %d time(s)" % (
                    what, calls, vec["hookCalls"]))
    if fld["restricted"] != "none":
        problems.extend(cross_format_probe())
    return problems


def replay(behaviour, report=None):
    core.import_repo()
    return _job(behaviour)


def reader_names_field(report):
    """The message of a rejection through Reader.rows(on_error='yield') names the field (sample)."""
    import cutplace
    from cutplace import errors
    cid = cutplace.Cid()
    cid.read("cid", [["D", "Format", "delimited"], ["D", "Allowed characters", "32...125"],
                     ["F", "first_field", "", "", "2...3", "Integer"], ["F", "second_field", "", "X", "...2", "Choice", "a, b"]])
    cases = [("11,a", None), (",a", "first_field"), ("1234,a", "first_field"), ("1~,a", "first_field"), ("11,abc", "second_field"),
             ("11,~", "second_field"), ("11,", None)]
    for text, culprit in cases:
        items = list(cutplace.rows(cid, io.StringIO(text + "\r\n", newline=""), on_error="yield"))
        report.replayed += 1
        got = items[0]
        if culprit is None:
            if isinstance(got, Exception):
                report.violation("c03", {"reader_case": text}, "accepted", str(got), "row %r is rejected: %s" % (text, got))
        elif not isinstance(got, errors.DataError) or ("'%s'" % culprit) not in str(got):
            report.violation("c03", {"reader_case": text}, "rejection naming " + culprit, str(got),
                             "row %r: the rejection %r does not name field %r" % (text, str(got), culprit))


def run(tier, report):
    core.import_repo()
    result = core.tlc("MCFields", "Fields_quick.cfg" if tier == "quick" else "Fields_deep.cfg", timeout=7000)
    core.require_coverage(result, ["GuardChars", "Strip", "GuardEmpty", "GuardLength", "Value"], "Fields")
    report.add_tlc("Fields: 4 formats x empty flag x %s x 3 shapes of the allowed-characters range x cells <= %d x hook verdict" % (
        ("5 length declarations (+2 fixed widths)", 4) if tier == "quick" else ("11 length declarations (+4 fixed widths)", 6)), result)
    report.notes["expected_counterexamples"] = []
    for cfg, deviation in (("Fields_pinned.cfg", "D5 emptiness guard before strip"),
                           ("Fields_pinned_blank.cfg", "D39 the blanks of an all-blank fixed-width cell are checked against the allowed characters"),
                           ("Fields_pinned_strip.cfg", "D40 every kind of white space is stripped from fixed-width cells")):
        pinned = core.tlc("MCFields", cfg, expect_violation=True, coverage=False)
        if pinned.violated != "GuardsHold":
            raise core.MachineryError("%s (%s) gave no counterexample" % (cfg, deviation))
        report.notes["expected_counterexamples"].append({"cfg": cfg, "deviation": deviation, "violated": pinned.violated})
    vectors = result.by_tag("VEC")
    outcomes = core.parallel_map(_job, vectors, chunk=300)
    shapes = {}
    for vec, problems in zip(vectors, outcomes):
        report.replayed += 8
        nontrivial = vec["outcome"][0] == "reject" or vec["outcome"][1] == "empty"
        report.count(core.json.dumps([vec["fld"], vec["cell"], vec["hook"]], sort_keys=True), nontrivial)
        if nontrivial and len(vec["cell"]) >= 2:
            report.sample({"field": vec["fld"], "cell": vec["cell"], "hook_says": vec["hook"], "predicted": vec["outcome"]}, limit=6)
        for problem in problems:
            shape = (problem.split(" field")[0], problem.split(": ", 1)[-1][:25], vec["fld"]["fmt"])
            shapes[shape] = shapes.get(shape, 0) + 1
            if shapes[shape] <= 1:
                report.violation("c03", vec, vec["outcome"], None, problem,
                                 signature="decimal-undeclarable" if "cannot be declared" in problem else None)
            else:
                report.violations.append({"what": problem})
    reader_names_field(report)
    for problem in excel_date_lengths():
        report.replayed += 1
        report.violation("c03", {"excel_date_length": problem}, None, None, problem)
    shown = set()
    for problem in characters_at_the_edges():
        if problem.split(",")[0] not in shown:
            shown.add(problem.split(",")[0])
            report.violation("c03", {"edge_character": problem}, "reject", "accept", problem)
    report.replayed += 4 * 3 * 13 * 6 * 8
    if not report.violations:
        for vec in vectors:
            if vec["outcome"] == ["reject", "length"] and not vec["undecided"]:
                corrupted = dict(vec)
                corrupted["outcome"] = ["accept", "native"]
                if not _job(corrupted):
                    core.selftest_failed("C03: a corrupted prediction (length rejection turned into acceptance) was not noticed")
                break
    report.exhaustive = True
    report.assumptions += [
        "the verdict of a type's value hook is measured by calling validated_value in isolation; C03 checks that validated() "
        "composes the guards and that verdict as specified (the hooks themselves are C02)",
        "a blanks-only fixed-width cell longer than the field is not decided by the property text and is not judged",
        "a tab stands for white space that is no blank; under every allowed-characters range used it is not an allowed character",
    ]
    return report.finish(rule="one case = (format, empty flag, length declaration, allowed characters, cell class sequence, hook "
                              "verdict) from TLC, replayed on the 8 built-in field classes; non-trivial = the cell is empty or "
                              "rejected; distinct by that tuple")
