"""
An ODF spreadsheet writer that is independent of cutplace: it serialises the
document trees of spec/Ods.tla (the encoding decisions are made by the
specification's Encode operators, this module only writes XML and zips it).
"""
import zipfile
from xml.sax.saxutils import escape

CHAR = {"a": "a", "b": "b", "sp": " ", "tab": "\t", "nl": "\n", "lt": "<&>", "e9": "é"}
NS = ('xmlns:office="urn:oasis:names:tc:opendocument:xmlns:office:1.0" '
      'xmlns:table="urn:oasis:names:tc:opendocument:xmlns:table:1.0" '
      'xmlns:text="urn:oasis:names:tc:opendocument:xmlns:text:1.0"')


def text_of(chars):
    return "".join(CHAR[c] for c in chars)


def piece_xml(piece):
    kind = piece["k"]
    if kind == "txt":
        return escape(text_of(piece["cs"]))
    if kind == "s":
        return "<text:s/>" if piece["n"] == 1 else '<text:s text:c="%d"/>' % piece["n"]
    if kind == "tab":
        return "<text:tab/>"
    if kind == "br":
        return "<text:line-break/>"
    return '<text:span text:style-name="T1">%s</text:span>' % "".join(piece_xml(p) for p in piece["sub"])


def cell_xml(cell, column_attribute=None):
    attributes = ""
    if column_attribute is not None:
        attributes = ' table:number-columns-repeated="%s"' % column_attribute
    elif cell["rep"] != 1:
        attributes = ' table:number-columns-repeated="%d"' % cell["rep"]
    # a comment on the cell: an annotation element in front of the cell's own paragraphs (its paragraph is not cell text)
    note = '<office:annotation><text:p>a note<text:s/>on the cell</text:p></office:annotation>' if cell.get("note") else ""
    if cell.get("covered"):
        return "<table:covered-table-cell%s/>" % attributes  # the hidden part of a merged range
    if not cell["paras"]:
        return ("<table:table-cell%s>%s</table:table-cell>" % (attributes, note)) if note else "<table:table-cell%s/>" % attributes
    paragraphs = "".join("<text:p>%s</text:p>" % "".join(piece_xml(p) for p in paragraph) for paragraph in cell["paras"])
    return '<table:table-cell office:value-type="string"%s>%s%s</table:table-cell>' % (attributes, note, paragraphs)


def row_xml(row, row_attribute=None, column_attribute=None):
    attributes = ""
    if row_attribute is not None:
        attributes = ' table:number-rows-repeated="%s"' % row_attribute
    elif row["rep"] != 1:
        attributes = ' table:number-rows-repeated="%d"' % row["rep"]
    cells = "".join(cell_xml(cell, column_attribute if index == 0 else None) for index, cell in enumerate(row["cells"]))
    return "<table:table-row%s>%s</table:table-row>" % (attributes, cells)


def sheet_xml(name, rows, row_attribute=None, column_attribute=None):
    parts = [(row.get("wrap", "none"), row_xml(row, row_attribute if index == 0 else None, column_attribute if index == 0 else None))
             for index, row in enumerate(rows)]
    # rows to repeat on every page sit in table:table-header-rows, grouped rows in a table:table-row-group
    header = "".join(xml for wrap, xml in parts if wrap == "header")
    group = "".join(xml for wrap, xml in parts if wrap == "group")
    plain = "".join(xml for wrap, xml in parts if wrap == "none")
    body = ("<table:table-header-rows>%s</table:table-header-rows>" % header if header else "") + (
        "<table:table-row-group>%s</table:table-row-group>" % group if group else "") + plain
    return '<table:table table:name="%s"><table:table-column/>%s</table:table>' % (name, body)


def content_xml(sheets, row_attribute=None, column_attribute=None, wanted=1):
    """sheets: list of row-element lists; attributes override the first row / cell of the wanted sheet (fault injection)."""
    tables = "".join(sheet_xml("Sheet%d" % number, rows, row_attribute if number == wanted else None,
                               column_attribute if number == wanted else None) for number, rows in enumerate(sheets, 1))
    return ('<?xml version="1.0" encoding="UTF-8"?><office:document-content %s office:version="1.2"><office:body>'
            "<office:spreadsheet>%s</office:spreadsheet></office:body></office:document-content>" % (NS, tables))


MANIFEST = ('<?xml version="1.0" encoding="UTF-8"?><manifest:manifest xmlns:manifest="urn:oasis:names:tc:opendocument:xmlns:manifest:1.0">'
            '<manifest:file-entry manifest:full-path="/" manifest:media-type="application/vnd.oasis.opendocument.spreadsheet"/>'
            '<manifest:file-entry manifest:full-path="content.xml" manifest:media-type="text/xml"/></manifest:manifest>')


def write_ods(path, content, with_content=True, encoding="utf-8", declared=None, trailer=""):
    """encoding / declared / trailer: content.xml in another encoding of XML (declared in its XML declaration), with white
    space behind the root element."""
    with zipfile.ZipFile(path, "w", zipfile.ZIP_DEFLATED) as archive:
        archive.writestr(zipfile.ZipInfo("mimetype"), "application/vnd.oasis.opendocument.spreadsheet", zipfile.ZIP_STORED)
        if with_content:
            if declared is not None:
                content = content.replace('encoding="UTF-8"', 'encoding="%s"' % declared, 1)
            archive.writestr("content.xml", (content + trailer).encode(encoding))
        archive.writestr("META-INF/manifest.xml", MANIFEST)


def plain_sheet(table):
    """Row elements of a table of Python strings, one cell element per cell, no runs (for decoys and CIDs)."""
    def pieces(text):
        result = []
        for char in text:
            result.append({"k": "txt", "cs": [char], "n": 0, "sub": []})
        return result

    rows = []
    for row in table:
        rows.append({"rep": 1, "cells": [{"rep": 1, "paras": [[{"k": "raw", "text": cell}]] if cell != "" else []} for cell in row]})
    return rows


def compact_sheet(table, notes=False):
    """The same, the way spreadsheet applications store it: adjacent equal cells of a row are one element with a repeat count
    (and, on request, every cell with a comment attached)."""
    rows = plain_sheet(table)
    for row in rows:
        for cell in row["cells"]:
            cell["note"] = notes
        cells = []
        for cell in row["cells"]:
            if cells and cells[-1]["paras"] == cell["paras"]:
                cells[-1]["rep"] += 1
            else:
                cells.append(cell)
        row["cells"] = cells
    return rows


_original_piece_xml = piece_xml


def piece_xml(piece):  # noqa: F811 -- adds the "raw" piece used by plain_sheet
    if piece["k"] == "markup":  # XML written as it is (for faults)
        return piece["xml"]
    if piece["k"] == "raw":
        text = piece["text"]
        out = []
        for index, char in enumerate(text):
            if char == " " and (index == 0 or index == len(text) - 1 or text[index - 1] == " "):
                out.append("<text:s/>")
            elif char == "\t":
                out.append("<text:tab/>")
            elif char == "\n":
                out.append("<text:line-break/>")
            elif char == "\r":
                out.append("&#13;")   # (a carriage return is data only as a character reference: XML turns a literal one into LF)
            else:
                out.append(escape(char))
        return "".join(out)
    return _original_piece_xml(piece)
