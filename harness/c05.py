"""C05 -- decided with spec/Session.tla; see harness/session_props.py for the plan and DESIGN.md section 5."""
from harness import session_check, session_props


def run(tier, report):
    return session_props.run_plan("C05", tier, report)


replay = session_check.replay
