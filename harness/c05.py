"""C05 -- decided with spec/Session.tla; see harness/session_props.py for the plan and DESIGN.md section 5."""
from harness import session_check, session_props


def run(tier, report):
    # unbounded companion: the uniqueness bookkeeping as an inductive invariant (any number of rows and data sets)
    from harness import core
    report.notes["unbounded_argument"] = core.apalache_inductive("MC_UniqueInductive.tla", "IndInit", "IndInv")
    return session_props.run_plan("C05", tier, report)


replay = session_check.replay
