"""C05 -- decided with spec/Session.tla; see harness/session_props.py for the plan and DESIGN.md section 5."""
from harness import core, session_check, session_props


def odd_keys(report):
    """
    IsUnique over two Text fields whose values hold characters a key could be glued together with (unit separator, bar,
    comma, tab, blank, quote-comma-quote): two rows are duplicates iff they have the same values in BOTH fields. The oracle
    is that sentence (tuple equality); every table of three rows over the value pool is read.
    """
    import io
    import itertools
    core.import_repo()
    import cutplace
    from cutplace import errors
    for separator in ("\x1f", "|", ",", "\t", " ", "', '", "\x1e", ";"):
        if True:
            pool = [("a", separator + "b"), ("a" + separator, "b"), ("a", "b"), (separator, ""), ("", separator), ("a" + separator + "b", "c"),
                    ("a", "b" + separator + "c")]
        cid = cutplace.Cid()
        cid.read("cid", [["D", "Format", "delimited"], ["D", "Item delimiter", "0x1d"], ["D", "Quote character", "~"],
                         ["F", "a", "", "X"], ["F", "b", "", "X"], ["C", "pair is unique", "IsUnique", "a, b"]])
        for rows in itertools.product(pool, repeat=3):
            text = "".join("\x1d".join(row) + "\r\n" for row in rows)
            if any(ch in text for ch in "~") or "\n" in "".join("".join(row) for row in rows):
                continue
            report.replayed += 1
            want = ["dup" if any(rows[j] == rows[i] for j in range(i)) else "ok" for i in range(3)]
            try:
                got = ["dup" if isinstance(item, errors.CheckError) else ("ok" if not isinstance(item, Exception) else "other")
                       for item in cutplace.rows(cid, io.StringIO(text, newline=""), on_error="yield")]
            except Exception as error:  # noqa
                got = "%s: %s" % (type(error).__name__, error)
            if got != want:
                report.violation("c05", {"odd_keys": [list(row) for row in rows]}, want, got,
                                 "IsUnique over (a, b), rows %r: verdicts are %s but must be %s (duplicate = same values in both fields)" % (
                                     list(rows), got, want))
                return
    report.notes["odd_keys"] = "tables of three rows over key values with glue characters read under IsUnique(a, b)"


def staged_cids(report):
    """
    A Cid put together in stages (rows with Cid.read, checks with add_check_row / add_check), with data validated in between:
    a check that is part of the Cid when a data set is read decides over that data set as the property says -- IsUnique
    rejects exactly the later duplicates, DistinctCount counts the rows that reached it. The oracle is the sentence itself
    (recomputed here), over every table of three rows from a small pool, readers and writers.
    """
    import io
    import itertools
    core.import_repo()
    import cutplace
    from cutplace import checks, errors
    pool = [("1", "a"), ("2", "b"), ("1", "c"), ("3", "a")]
    tables = list(itertools.product(pool, repeat=3))
    for how in ("row",):  # (Cid.add_check() cannot be called: its assertion misspells 'description' -- outside the listed properties)
        for first in ((), (("1", "a"), ("2", "b")), (("1", "a"), ("1", "a"))):
            cid = cutplace.Cid()
            cid.read("staged", [["D", "Format", "delimited"], ["F", "id"], ["F", "branch"]])
            if first:
                try:
                    cutplace.validate(cid, io.StringIO("".join(",".join(row) + "\r\n" for row in first), newline=""))
                except errors.DataError:
                    pass
            if how == "row":
                cid.add_check_row(["id is unique", "IsUnique", "id"])
                cid.add_check_row(["few branches", "DistinctCount", "branch <= 2"])
            else:
                cid.add_check(checks.IsUniqueCheck("id is unique", "id", cid.field_names))
                cid.add_check(checks.DistinctCountCheck("few branches", "branch <= 2", cid.field_names))
            for table in tables:
                report.replayed += 1
                want, seen, branches = [], set(), set()
                for row in table:
                    if row[0] in seen:
                        want.append("dup")
                    else:
                        want.append("ok")
                        seen.add(row[0])
                        branches.add(row[1])
                want.append("end fails" if len(branches) > 2 else "end ok")
                text = "".join(",".join(row) + "\r\n" for row in table)
                got = []
                try:
                    for item in cutplace.rows(cid, io.StringIO(text, newline=""), on_error="yield"):
                        got.append("dup" if isinstance(item, errors.CheckError) else ("ok" if not isinstance(item, Exception) else "other"))
                    got.append("end ok")
                except errors.CheckError:
                    got.append("end fails")
                except Exception as error:  # noqa
                    got.append("%s: %s" % (type(error).__name__, error))
                written = []
                try:
                    with cutplace.Writer(cid, io.StringIO()) as writer:
                        for row in table:
                            try:
                                writer.write_row(list(row))
                                written.append("ok")
                            except errors.CheckError:
                                written.append("dup")
                    written.append("end ok")
                except errors.CheckError:
                    written.append("end fails")
                except Exception as error:  # noqa
                    written.append("%s: %s" % (type(error).__name__, error))
                for who, verdicts in (("rows()", got), ("Writer", written)):
                    if verdicts != want:
                        report.violation("c05", {"staged": how, "first": [list(row) for row in first], "table": [list(row) for row in table]}, want, verdicts,
                                         "Cid whose checks IsUnique(id) and DistinctCount(branch <= 2) were added with %s after %s: %s over the rows %r "
                                         "gives %s but must give %s" % ("add_check_row" if how == "row" else "add_check", "data %r had been validated" % (list(first),) if first else
                                                                        "its fields were read", who, list(table), verdicts, want))
                        return
    report.notes["staged_cids"] = "checks added to a Cid after its first use: tables of three rows read and written"


def run(tier, report):
    # unbounded companion: the uniqueness bookkeeping as an inductive invariant (any number of rows and data sets)
    from harness import core
    report.notes["unbounded_argument"] = core.apalache_inductive("MC_UniqueInductive.tla", "IndInit", "IndInv")
    # ... and the same invariant proved with TLAPS for any set of keys (Spec => []Safety)
    report.notes["unbounded_proof"] = core.tlaps_proof("UniqueProof.tla")
    # two validators alive at the same time on one Cid (known finding D45)
    from harness import shared_cid
    shared_cid.run(report)
    odd_keys(report)
    staged_cids(report)
    return session_props.run_plan("C05", tier, report)


def replay(behaviour, report=None):
    if "sched" in behaviour:
        from harness import core, shared_cid
        core.import_repo()
        verdict, what = shared_cid._job(behaviour)
        return [] if verdict == "alone" else [what]
    return session_check.replay(behaviour, report)
