"""C05 -- decided with spec/Session.tla; see harness/session_props.py for the plan and DESIGN.md section 5."""
from harness import core, session_check, session_props


def odd_keys(report):
    """
    IsUnique over two Text fields whose values hold characters a key could be glued together with (unit separator, bar,
    comma, tab, blank, quote-comma-quote): two rows are duplicates iff they have the same values in BOTH fields. The oracle
    is that sentence (tuple equality); every table of three rows over the value pool is read.
    """
    import io
    import itertools
    core.import_repo()
    import cutplace
    from cutplace import errors
    for separator in ("\x1f", "|", ",", "\t", " ", "', '", "\x1e", ";"):
        if True:
            pool = [("a", separator + "b"), ("a" + separator, "b"), ("a", "b"), (separator, ""), ("", separator), ("a" + separator + "b", "c"),
                    ("a", "b" + separator + "c")]
        cid = cutplace.Cid()
        cid.read("cid", [["D", "Format", "delimited"], ["D", "Item delimiter", "0x1d"], ["D", "Quote character", "~"],
                         ["F", "a", "", "X"], ["F", "b", "", "X"], ["C", "pair is unique", "IsUnique", "a, b"]])
        for rows in itertools.product(pool, repeat=3):
            text = "".join("\x1d".join(row) + "\r\n" for row in rows)
            if any(ch in text for ch in "~") or "\n" in "".join("".join(row) for row in rows):
                continue
            report.replayed += 1
            want = ["dup" if any(rows[j] == rows[i] for j in range(i)) else "ok" for i in range(3)]
            try:
                got = ["dup" if isinstance(item, errors.CheckError) else ("ok" if not isinstance(item, Exception) else "other")
                       for item in cutplace.rows(cid, io.StringIO(text, newline=""), on_error="yield")]
            except Exception as error:  # noqa
                got = "%s: %s" % (type(error).__name__, error)
            if got != want:
                report.violation("c05", {"odd_keys": [list(row) for row in rows]}, want, got,
                                 "IsUnique over (a, b), rows %r: verdicts are %s but must be %s (duplicate = same values in both fields)" % (
                                     list(rows), got, want))
                return
    report.notes["odd_keys"] = "tables of three rows over key values with glue characters read under IsUnique(a, b)"


def run(tier, report):
    # unbounded companion: the uniqueness bookkeeping as an inductive invariant (any number of rows and data sets)
    from harness import core
    report.notes["unbounded_argument"] = core.apalache_inductive("MC_UniqueInductive.tla", "IndInit", "IndInv")
    # ... and the same invariant proved with TLAPS for any set of keys (Spec => []Safety)
    report.notes["unbounded_proof"] = core.tlaps_proof("UniqueProof.tla")
    # two validators alive at the same time on one Cid (known finding D45)
    from harness import shared_cid
    shared_cid.run(report)
    odd_keys(report)
    return session_props.run_plan("C05", tier, report)


def replay(behaviour, report=None):
    if "sched" in behaviour:
        from harness import core, shared_cid
        core.import_repo()
        verdict, what = shared_cid._job(behaviour)
        return [] if verdict == "alone" else [what]
    return session_check.replay(behaviour, report)
