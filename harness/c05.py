"""C05 -- decided with spec/Session.tla; see harness/session_props.py for the plan and DESIGN.md section 5."""
from harness import session_check, session_props


def run(tier, report):
    # unbounded companion: the uniqueness bookkeeping as an inductive invariant (any number of rows and data sets)
    from harness import core
    report.notes["unbounded_argument"] = core.apalache_inductive("MC_UniqueInductive.tla", "IndInit", "IndInv")
    # ... and the same invariant proved with TLAPS for any set of keys (Spec => []Safety)
    report.notes["unbounded_proof"] = core.tlaps_proof("UniqueProof.tla")
    # two validators alive at the same time on one Cid (known finding D45)
    from harness import shared_cid
    shared_cid.run(report)
    return session_props.run_plan("C05", tier, report)


def replay(behaviour, report=None):
    if "sched" in behaviour:
        from harness import core, shared_cid
        core.import_repo()
        verdict, what = shared_cid._job(behaviour)
        return [] if verdict == "alone" else [what]
    return session_check.replay(behaviour, report)
