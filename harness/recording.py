"""
Recording field format and check classes for C20. They are ordinary
user-defined plugins: subclasses of AbstractFieldFormat / AbstractCheck that
the CID resolves by class name ("Recording" -> RecordingFieldFormat /
RecordingCheck). Every call of the documented protocol is appended to LOG
(or, when the module runs as a plugin in a subprocess, to the file named by
VERIF_CALL_LOG).

Cell texts carry the raw row number: "<value>.<row>", a cell the value hook
refuses is "r<value>.<row>" (or "9<value>.<row>" under a CID that allows digits only).
"""
import json
import os

from cutplace import checks, errors, fields

LOG = []
_LOG_PATH = os.environ.get("VERIF_CALL_LOG")


def _log(entry):
    LOG.append(entry)
    if _LOG_PATH:
        with open(_LOG_PATH, "a", encoding="utf-8") as log_file:
            log_file.write(json.dumps(entry) + "\n")


def _row_of(text):
    try:
        return int(str(text).strip().rsplit(".", 1)[1])
    except (IndexError, ValueError):
        return -1


class RecordingFieldFormat(fields.AbstractFieldFormat):
    def __init__(self, field_name, is_allowed_to_be_empty, length_text, rule, data_format, empty_value=""):
        super().__init__(field_name, is_allowed_to_be_empty, length_text, rule, data_format, empty_value)
        self.index = int(rule)

    def validated_value(self, value):
        _log(["value", self.index, _row_of(value)])
        if value.startswith("r") or value.startswith("9"):
            raise errors.FieldValueError("recording field %d refuses %r" % (self.index, value))
        return value


class RecordingCheck(checks.AbstractCheck):
    def __init__(self, description, rule, available_field_names, location_of_definition=None):
        super().__init__(description, rule, available_field_names, location_of_definition)
        number, veto, end_fail = rule.split()
        self.number = int(number)
        self.veto = int(veto)
        self.end_fail = end_fail == "1"

    def reset(self):
        _log(["reset", self.number])

    def check_row(self, field_name_to_value_map, location):
        _log(["check_row", self.number, _row_of(field_name_to_value_map["rid"])])
        first = str(field_name_to_value_map["f1"]).strip()
        if self.veto and first.split(".")[0] == str(self.veto):
            raise errors.CheckError("recording check %d vetoes the row" % self.number, location)

    def check_at_end(self, location):
        _log(["check_at_end", self.number])
        if self.end_fail:
            raise errors.CheckError("recording check %d fails at end" % self.number, location)

    def cleanup(self):
        _log(["cleanup", self.number])
