"""
Plans for the properties decided with spec/Session.tla. Each step names a TLC
configuration (spec/Session_<name>.cfg, root module from Session_cfgs.json),
the data formats its behaviours are replayed in, and replay limits per tier.
"""
import json
import os

from harness import core, session_check

with open(os.path.join(core.SPEC, "Session_cfgs.json")) as _index_file:
    MODULES = json.load(_index_file)

BOTH = ("delimited", "fixed")
FIXED_VARIANTS = ("fixed:none", "fixed:crlf", "fixed:cr", "fixed:any")
RW = session_check.READ_ACTIONS + session_check.WRITE_ACTIONS
FILE_TARGETS = ("delimited@file", "fixed@file", "fixed:none@file")

# property -> tier -> list of steps (cfg name, formats, required actions, max_replay, simulate, depth)
PLANS = {
    "C04": {
        "quick": [("c04_quick", BOTH, session_check.READ_ACTIONS + ["ReaderFault"], None, None, None),
                  ("c04_single", ("delimited",), session_check.READ_ACTIONS, None, None, None),
                  # three fields, the middle one may be empty: the column of a rejected cell behind an empty one
                  ("c04_three", BOTH, session_check.READ_ACTIONS, None, None, None),
                  # one reader object read twice, closed or not in between: the second pass numbers its rows from 1 and
                  # judges them as the first one does
                  ("c07_again_h1", ("delimited",), session_check.READ_ACTIONS + ["ReadAgain"], 4000, None, None)],
        "thorough": [("c04_quick", BOTH, session_check.READ_ACTIONS + ["ReaderFault"], None, None, None),
                     ("c07_again_h0", BOTH, session_check.READ_ACTIONS + ["ReadAgain"], 30000, None, None),
                     ("c07_again_h1", BOTH, session_check.READ_ACTIONS + ["ReadAgain"], 30000, None, None),
                     ("c04_single", ("delimited",), session_check.READ_ACTIONS, None, None, None),
                     ("c04_three", BOTH, session_check.READ_ACTIONS, None, None, None),
                     ("c04_single_h1", ("delimited",), session_check.READ_ACTIONS, None, None, None),
                     ("c04_h0", BOTH, session_check.READ_ACTIONS, None, None, None),
                     ("c04_h2", BOTH, session_check.READ_ACTIONS, None, None, None),
                     ("c04_t4", BOTH + FIXED_VARIANTS, session_check.READ_ACTIONS, None, None, None)],
    },
    "C05": {
        "quick": [("c05_ck1", BOTH, session_check.READ_ACTIONS, None, None, None),
                  ("c05_ck2", ("delimited",), session_check.READ_ACTIONS, None, None, None),
                  ("c05_ck3", ("delimited",), session_check.READ_ACTIONS, None, None, None),
                  ("c05_ck4", ("delimited",), session_check.READ_ACTIONS, None, None, None),
                  ("c05_uu", ("delimited",), session_check.READ_ACTIONS, None, None, None),
                  # a validation limit below the number of rows, the reader iterated to its end: the checks at the end speak
                  # about the rows that reached them
                  ("c05_lim_ck1", ("delimited",), session_check.READ_ACTIONS, 3000, None, None),
                  ("c05_lim_ck4", ("delimited",), session_check.READ_ACTIONS, 3000, None, None),
                  ("c05_lim_ck7", ("delimited",), session_check.READ_ACTIONS, 3000, None, None),
                  # "of the same data set": readers created early and read after other data sets went through the CID
                  ("c08_park2", ("delimited",), RW + ["Park", "Resume"], 3000, None, None)],
        "thorough": [("c08_park2", BOTH, RW + ["Park", "Resume"], None, None, None)] + [("c05_ck%d" % n, BOTH, session_check.READ_ACTIONS, None, None, None) for n in range(1, 9)]
        + [("c05_ck%d_t5" % n, ("delimited",), session_check.READ_ACTIONS, None, None, None) for n in range(1, 9)]
        + [("c05_uu", BOTH, session_check.READ_ACTIONS, None, None, None)],
    },
    "C06": {
        "quick": [("c06_reader", ("delimited", "delimited+skip"), session_check.READ_ACTIONS + ["ReaderFault"], None, None, None),
                  ("c04_h0", ("fixed",), session_check.READ_ACTIONS + ["ReaderFault"], None, None, None),
                  # the modes also agree when only a prefix of the rows is validated
                  ("c07_h1", ("delimited",), session_check.READ_ACTIONS, None, None, None),
                  # ... and for readers that were created before other readers of the CID were read (one reader per mode)
                  ("c08_park2", ("delimited",), RW + ["Park", "Resume"], 3000, None, None)],
        "thorough": [("c07_h1_t5", BOTH, session_check.READ_ACTIONS, None, None, None), ("c06_reader", BOTH + ("delimited+skip",), session_check.READ_ACTIONS + ["ReaderFault"], None, None, None),
                     ("c06_reader_h0", BOTH + ("delimited+skip",), session_check.READ_ACTIONS + ["ReaderFault"], None, None, None),
                     ("c04_quick", BOTH, session_check.READ_ACTIONS + ["ReaderFault"], None, None, None),
                     ("c04_h0", BOTH, session_check.READ_ACTIONS + ["ReaderFault"], None, None, None),
                     ("c04_t4", ("delimited",), session_check.READ_ACTIONS, None, None, None)],
    },
    "C07": {
        "quick": [("c07_h%d" % h, BOTH + ("cli",), session_check.READ_ACTIONS, None, None, None) for h in range(0, 4)]
        + [("c07_again_h1", ("delimited",), session_check.READ_ACTIONS + ["ReadAgain"], 4000, None, None),
           ("c07_empty_h1", ("delimited",), session_check.READ_ACTIONS, None, None, None),
           ("c07_empty_h2", ("delimited",), session_check.READ_ACTIONS, None, None, None)],
        "thorough": [("c07_h%d_t5" % h, BOTH + ("cli",), session_check.READ_ACTIONS, None, None, None) for h in range(0, 4)]
        + [("c07_again_h%d" % h, BOTH, session_check.READ_ACTIONS + ["ReadAgain"], 60000, None, None) for h in (0, 1)]
        + [("c07_empty_h%d" % h, ("delimited",), session_check.READ_ACTIONS, None, None, None) for h in (0, 1, 2)],
    },
    "C08": {
        "quick": [("c08_hist2", ("delimited",), RW, 4000, None, None),
                  ("c08_park2", ("delimited",), RW + ["Park", "Resume"], 3000, None, None),
                  # one reader object, two data sets: read, closed or not, and read again
                  ("c08_again", ("delimited",), session_check.READ_ACTIONS + ["ReadAgain"], None, None, None)],
        "thorough": [("c08_hist2", BOTH, RW, None, None, None),
                     ("c08_again", BOTH, session_check.READ_ACTIONS + ["ReadAgain"], None, None, None),
                     ("c08_park2", BOTH, RW + ["Park", "Resume"], None, None, None),
                     ("c08_park3", (), RW + ["Park", "Resume"], 0, None, None),
                     ("c08_hist4sim", ("delimited",), RW, 60000, 3000, 60),
                     ("c08_hist3", (), RW, 0, None, None)],
    },
    "C14": {
        "quick": [("c14_h0_t3", BOTH + ("fixed:none",), session_check.WRITE_ACTIONS, None, None, None),
                  ("c14_h1_t3", BOTH + ("fixed:none", "fixed:crlf"), session_check.WRITE_ACTIONS, None, None, None),
                  ("c14_h2_t3", ("delimited", "delimited:lf", "delimited:cr"), session_check.WRITE_ACTIONS, None, None, None),
                  ("c14_hist2", BOTH, session_check.WRITE_ACTIONS, 4000, None, None),
                  # targets with a limited encoding: rows the CID accepts and the container refuses
                  ("c14_enc_h0", FILE_TARGETS, session_check.WRITE_ACTIONS, None, None, None),
                  ("c14_enc_h1", ("fixed@file",), session_check.WRITE_ACTIONS, None, None, None),
                  ("c14_encud_h0", ("delimited@file", "fixed@file"), session_check.WRITE_ACTIONS, None, None, None)],
        "thorough": [("c14_h0_t4", BOTH + FIXED_VARIANTS, session_check.WRITE_ACTIONS, None, None, None),
                     ("c14_hist2", BOTH, session_check.WRITE_ACTIONS, None, None, None),
                     ("c14_hist3", ("delimited",), session_check.WRITE_ACTIONS, 20000, None, None),
                     ("c14_h1_t4", BOTH + FIXED_VARIANTS, session_check.WRITE_ACTIONS, None, None, None),
                     ("c14_enc_h0", FILE_TARGETS + ("fixed:crlf@file", "fixed:cr@file"), session_check.WRITE_ACTIONS, None, None, None),
                     ("c14_enc_h1", FILE_TARGETS + ("fixed:crlf@file", "fixed:cr@file"), session_check.WRITE_ACTIONS, None, None, None),
                     ("c14_encud_h0", FILE_TARGETS, session_check.WRITE_ACTIONS, None, None, None),
                     ("c14_encud_h1", FILE_TARGETS, session_check.WRITE_ACTIONS, None, None, None)],
    },
}

# expected-counterexample configurations: the deviation switch in the position of the (formerly) pinned code
# must violate the named invariant -- this documents the defect as a TLC trace and guards against vacuity
PINNED = {
    "C05": [("c05_uu_pinned", "D12 register-on-reach")],
    "C06": [("c06_pinned_endchecks", "D8 end checks replace the error that ended the run")],
    "C14": [("c14_enc_pinned", "D14 the checks see a row before the container refuses it")],
    "C08": [("c08_pinned_reset", "D2/D13 checks are not reset when a reader or writer is created"),
            ("c08_pinned_start", "checks are not reset at the start of rows(): a reader created early and read late inherits "
                                 "what other readers and writers did in between")],
}

ASSUMPTIONS = [
    "abstract cells are concretised as Integer fields 0...99 with text cells '1', '2', ...; a rejected cell is 'x<n>'; "
    "IsUnique keys are compared as cell text over alphabets where text equality and value equality coincide",
    "the place where a malformed container is reported (DataFormatError location) is not compared: no listed property speaks about it",
    "container faults are concretised as a stray character after a closing quote or a quote that is never closed (delimited, with and without skip initial space) or a truncated record (fixed)",
]


def run_plan(property_id, tier, report, extra=None, rule=None):
    core.import_repo()
    first_vectors = None
    all_vectors = None
    for name, fmts, require, max_replay, simulate, depth in PLANS[property_id][tier]:
        cfg = "Session_%s.cfg" % name
        if not fmts:
            result = core.tlc(MODULES[cfg], cfg, timeout=6000)
            core.require_coverage(result, require, cfg)
            report.add_tlc("Session %s (model only)" % name, result)
            continue
        vectors = session_check.explore(report, property_id, "Session %s" % name, cfg, fmts=fmts, require=require,
                                        max_replay=max_replay, simulate=simulate, depth=depth, module=MODULES[cfg],
                                        timeout=6000)
        all_vectors = (all_vectors or []) + list(vectors)
        if first_vectors is None:
            first_vectors = vectors
    for name, what in PINNED.get(property_id, []):
        cfg = "Session_%s.cfg" % name
        result = core.tlc(MODULES[cfg], cfg, expect_violation=True, coverage=False)
        if not result.violated:
            raise core.MachineryError("expected-counterexample configuration %s found no counterexample (%s)" % (name, what))
        report.notes.setdefault("expected_counterexamples", []).append(
            {"cfg": cfg, "deviation": what, "violated": result.violated, "states": result.generated})
    # code -> spec: executions recorded through the hooks are validated against SessionTrace.tla
    from harness import trace_drivers
    if first_vectors and property_id != "C20":  # (recording checks are user-defined: outside SessionTrace's check kinds)
        trace_drivers.sample_and_validate(report, first_vectors, 300 if tier == "quick" else 4000,
                                          "sample of the TLC-generated histories replayed with the hooks on",
                                          demo=not report.violations)
    if property_id == "C08":
        parked = [v for v in (all_vectors or []) if any(e["run"].get("deferred") for e in v["hist"])]
        if parked:
            trace_drivers.sample_and_validate(report, parked, 150 if tier == "quick" else 2000,
                                              "sample of the histories with a reader that is created early and read late, hooks on")
        trace_drivers.random_programs(report, 100 if tier == "quick" else 3000)
        trace_drivers.test_suite(report)
    if extra is not None:
        extra(report, tier)
    if not report.violations and first_vectors:
        session_check.selftest(first_vectors)
    report.exhaustive = tier == "quick" or property_id != "C08"
    report.assumptions += ASSUMPTIONS
    return report.finish(rule=rule or (
        "one case = one history (sequence of reader / writer runs on one Cid object, each with API, mode, limit, "
        "way of ending and abstract table) emitted by TLC at the end of a behaviour, replayed per data format; "
        "non-trivial = some row is rejected, an error escapes, or the history has several runs; distinct by history and format"))
