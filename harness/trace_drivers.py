"""
Sources of recorded executions for trace validation (code -> spec):
  (i)   a sample of the histories TLC generated, replayed with the hooks on;
  (ii)  seeded random API programs over richer shapes than the model-checking constants;
  (iii) the repository's own test-suite run with CUTPLACE_VERIF=1 (what the existing tests already execute
        but do not assert).
Every trace is validated by TLC against spec/SessionTrace.tla; a trace that no behaviour of the specification
explains is a VIOLATION. The binding is demonstrated on every run by corrupting one recorded field and by
deleting one event of an accepted trace: both must be rejected.
"""
import copy
import io
import json
import os
import subprocess

from harness import core, sessionlib, session_check, tracelib

TEST_FILES = ["tests/test_validio.py", "tests/test_checks.py", "tests/test_applications.py", "tests/test_performance.py"]


def _report_rejected(report, rejected, source, events_path=None):
    for item in rejected:
        behaviour = {"kind": "trace", "source": source, "shape": item["shape"], "trace": item["trace"]}
        report.violation(report.property_id.lower(), behaviour, "a behaviour of Session.tla explaining every event",
                         {"matched_prefix": item["matched_prefix"], "no_action_explains": item["no_action_explains"]},
                         "recorded trace (%s, Cid %s) is not a behaviour of the specification: after %d of %d events no "
                         "action explains %s" % (source, item["cid"], item["matched_prefix"], item["events"],
                                                 json.dumps(item["no_action_explains"])[:300]))


def record_vectors(vectors, path, fmt="delimited"):
    if os.path.exists(path):
        os.remove(path)
    tracelib.enable_hooks(path)
    try:
        for vec in vectors:
            session_check.replay_history(vec, fmt)
    finally:
        tracelib.disable_hooks()


def validate_file(report, path, label):
    accepted, rejected, skipped = tracelib.validate(report, path, label)
    report.traces_validated += accepted + len(rejected)
    report.notes.setdefault("trace_sources", []).append(
        {"source": label, "accepted": accepted, "rejected": len(rejected), "outside_specification": skipped})
    _report_rejected(report, rejected, label)
    return accepted, rejected, skipped


def binding_demo(report, path):
    """Corrupt one logged number / drop one event of a log whose traces are all accepted: TLC must reject exactly those."""
    events = tracelib.load_events(path)
    groups = tracelib.group_by_cid(events)
    candidates = [key for key, group in sorted(groups.items())
                  if any(e["ev"] == "row" and e.get("kind") == "accepted" and e["sizes"] for e in group)]
    if len(candidates) < 2:
        core.selftest_failed("no recorded trace with an accepted row to corrupt")
    folder = core.workdir("bind")
    try:
        corrupted_path = os.path.join(folder, "corrupted.ndjson")
        first, second = candidates[0], candidates[1]
        with open(corrupted_path, "w", encoding="utf-8") as out:
            done_first = False
            done_second = False
            for event in events:
                key = (event.get("pid", 0), event["cid"])
                event = copy.deepcopy(event)
                if key == first and not done_first and event["ev"] == "row" and event.get("kind") == "accepted" and event["sizes"]:
                    event["sizes"][0] += 1  # one logged number changed
                    done_first = True
                if key == second and not done_second and event["ev"] == "reader_start":
                    done_second = True
                    continue  # one hook's event removed
                if key in (first, second):
                    out.write(json.dumps(event) + "\n")
        scratch = core.Report(report.property_id, report.tier)
        accepted, rejected, skipped = tracelib.validate(scratch, corrupted_path, "binding demonstration")
        expected = 1 + (1 if done_second else 0)
        if len(rejected) != expected:
            core.selftest_failed("trace validation accepted a corrupted trace (%d of %d corrupted traces rejected)" % (
                len(rejected), expected))
        report.notes["binding_demonstration"] = "one logged size changed in one trace, one reader_start event removed from " \
                                                "another: both rejected by TLC (%d/%d)" % (len(rejected), expected)
    finally:
        core.cleanup(folder)


def sample_and_validate(report, vectors, count, label, fmt="delimited", demo=False):
    ordered = sorted(vectors, key=lambda v: json.dumps(v["hist"], sort_keys=True))
    rng = core.rng(7)
    sample = ordered if len(ordered) <= count else rng.sample(ordered, count)
    folder = core.workdir("rec")
    try:
        path = os.path.join(folder, "trace.ndjson")
        record_vectors(sample, path, fmt)
        accepted, rejected, skipped = validate_file(report, path, label)
        if demo and not rejected:
            binding_demo(report, path)
    finally:
        core.cleanup(folder)


# ------------------------------------------------------------------ (ii) random API programs
SHAPES = [
    (3, [{"t": "u", "key": [1]}, {"t": "d", "f": 2, "op": "le", "n": 2}], 0),
    (3, [{"t": "u", "key": [1, 3]}, {"t": "u", "key": [2]}], 1),
    (2, [{"t": "d", "f": 1, "op": "ne", "n": 1}, {"t": "u", "key": [2]}, {"t": "u", "key": [1]}], 2),
    (4, [], 0),
]


def random_table(rng, nfields, max_rows):
    rows = []
    for _ in range(rng.randrange(0, max_rows + 1)):
        roll = rng.random()
        values = [rng.randrange(1, 4) for _ in range(nfields)]
        if roll < 0.08:
            rows.append({"w": "short", "c": ["ok"], "v": [1]})
        elif roll < 0.16:
            rows.append({"w": "long", "c": ["ok"] * (nfields + 1), "v": values + [1]})
        elif roll < 0.36:
            cells = ["ok"] * nfields
            cells[rng.randrange(nfields)] = "rej"
            rows.append({"w": "ok", "c": cells, "v": values})
        else:
            rows.append({"w": "ok", "c": ["ok"] * nfields, "v": values})
    fault = 0 if rng.random() < 0.85 else rng.randrange(1, len(rows) + 2)
    return {"rows": rows, "fault": fault}


def random_program(rng, nfields, max_rows=8, max_ops=5):
    hist = []
    for _ in range(rng.randrange(1, max_ops + 1)):
        table = random_table(rng, nfields, max_rows)
        if rng.random() < 0.3:
            table["fault"] = 0
            hist.append({"run": {"op": "write", "api": "writer", "ds": table, "mode": "raise", "limit": [],
                                 "end": rng.choice(["close", "forget"]), "k": 0}})
            continue
        api = rng.choice(["rows", "validate", "reader"])
        mode = "raise" if api == "validate" else rng.choice(["raise", "yield", "continue"])
        limit = [] if rng.random() < 0.5 else [rng.randrange(0, max_rows + 2)]
        end = "close" if api == "validate" else rng.choice(["close", "close", "abandon"] if api == "rows"
                                                             else ["close", "close", "forget", "abandon"])
        k = rng.randrange(1, max(2, len(table["rows"]) + 1)) if end == "abandon" else 0
        hist.append({"run": {"op": "read", "api": api, "ds": table, "mode": mode, "limit": limit, "end": end, "k": k,
                             # a reader object may be created now and read after the next run
                             "deferred": api == "reader" and rng.random() < 0.4}})
    return hist


def run_program(shape, hist, fmt="delimited"):
    """Execute a history on one real Cid without any expectation (the recorded trace is what gets validated)."""
    cid = shape.new_cid()
    keep = []
    runs = [entry["run"] for entry in hist if not (fmt == "fixed" and not shape.has_fixed_form(entry["run"]["ds"]))]
    waiting = None
    for index, run in enumerate(runs):
        if run["op"] == "write":
            sessionlib.run_write(shape, cid, run, keep)
        elif run.get("deferred") and waiting is None and index + 1 < len(runs):
            waiting = (run, sessionlib.create_reader(shape, cid, run))
            continue
        else:
            sessionlib.run_read(shape, cid, run, keep)
        if waiting is not None:
            sessionlib.run_read(shape, cid, waiting[0], keep, waiting[1])
            waiting = None
    return keep


def random_programs(report, count):
    rng = core.rng(11)
    folder = core.workdir("rand")
    try:
        path = os.path.join(folder, "trace.ndjson")
        tracelib.enable_hooks(path)
        programs = 0
        try:
            for index in range(count):
                nfields, checks, header = SHAPES[index % len(SHAPES)]
                fmt = "fixed" if index % 5 == 4 else "delimited"
                shape = sessionlib.Shape(nfields, checks, header, fmt)
                hist = random_program(rng, nfields)
                run_program(shape, hist, fmt)
                programs += 1
                if index < 2:
                    report.sample({"random_program": [{k: v for k, v in e["run"].items() if k != "ds"} for e in hist],
                                   "rows": [len(e["run"]["ds"]["rows"]) for e in hist]}, limit=8)
        finally:
            tracelib.disable_hooks()
        validate_file(report, path, "random API programs (%d programs, seed %d)" % (programs, core.seed()))
    finally:
        core.cleanup(folder)


# ------------------------------------------------------------------ (iii) the repository's test-suite
def test_suite(report):
    folder = core.workdir("suite")
    try:
        path = os.path.join(folder, "trace.ndjson")
        env = dict(os.environ)
        env[core.GUARD] = "1"
        env["CUTPLACE_VERIF_TRACE"] = path
        files = [name for name in TEST_FILES if os.path.exists(os.path.join(core.REPO, name))]
        process = subprocess.run(["/venv/bin/python", "-m", "pytest", "-q", "-p", "no:cacheprovider", "-x", "--timeout=600"] + files,
                                 cwd=core.REPO, env=env, stdout=subprocess.PIPE, stderr=subprocess.STDOUT, universal_newlines=True)
        summary = process.stdout.strip().splitlines()[-1] if process.stdout.strip() else ""
        report.notes["test_suite_with_hooks"] = summary
        if not os.path.exists(path):
            raise core.MachineryError("the test-suite produced no trace with the guard on: %s" % summary)
        validate_file(report, path, "repository test-suite with the guard on (%s)" % ", ".join(files))
    finally:
        core.cleanup(folder)


def replay_trace(behaviour):
    """--replay of a stored trace violation: validate the stored (already transcribed) trace again."""
    scratch = core.Report("C08", "quick")
    folder = core.workdir("rtrace")
    try:
        shape = behaviour["shape"]
        path = os.path.join(folder, "events.json")
        # re-validate through the same TLC path by writing the transcribed trace directly
        accepted, rejected = tracelib.validate_transcribed(scratch, shape, [behaviour["trace"]], "replay")
        return ["stored trace is still not a behaviour of the specification (matched %d events)" % r["matched_prefix"]
                for r in rejected]
    finally:
        core.cleanup(folder)
