"""
C20 -- user-defined field formats and checks are driven by the documented call protocol.

spec/Session.tla with LogCalls = TRUE keeps the call log of every run; TLC
checks ProtocolHolds (the protocol stated from the property text) and
CallsAsDocumented in every state. Every history is replayed with recording
subclasses of AbstractFieldFormat / AbstractCheck (harness/recording.py)
resolved by class name from the CID; the recorded call sequence must equal
the predicted one. A sample is replayed in a subprocess in which the same
classes come from a plugin folder via cutplace.interface.import_plugins.
"""
import copy
import json
import os
import shutil
import subprocess

from harness import core, session_check, session_props, sessionlib

RW = session_check.READ_ACTIONS + session_check.WRITE_ACTIONS
session_props.PLANS["C20"] = {
    "quick": [("c20_h0_t2", session_props.BOTH + ("narrow",), RW, None, None, None),
              ("c20_h1_t2", ("delimited",), RW, None, None, None),
              ("c20_nochecks", ("delimited",), RW, None, None, None),
              ("c20_two_runs", ("delimited",), RW, 3000, None, None),
              ("c20_park", ("delimited",), RW + ["Park", "Resume"], 3000, None, None),
              ("c20_again", ("delimited",), session_check.READ_ACTIONS + ["ReadAgain"], 3000, None, None),
              # the container breaks off: what the checks are asked and told when a run ends with a data-format error
              ("c20_fault", session_props.BOTH, session_check.READ_ACTIONS + ["ReaderFault"], None, None, None)],
    "thorough": [("c20_h0_t3", session_props.BOTH + ("narrow",), RW, None, None, None),
                 ("c20_h1_t3", session_props.BOTH, RW, None, None, None),
                 ("c20_nochecks", session_props.BOTH, RW, None, None, None),
                 ("c20_two_runs", session_props.BOTH, RW, None, None, None),
                 ("c20_park", session_props.BOTH, RW + ["Park", "Resume"], None, None, None),
                 ("c20_again", session_props.BOTH, session_check.READ_ACTIONS + ["ReadAgain"], None, None, None),
                 ("c20_fault", session_props.BOTH, session_check.READ_ACTIONS + ["ReaderFault"], None, None, None)],
}

def plugin_run(vectors, count):
    """Replay `count` single-run histories in a subprocess where the classes are found through import_plugins."""
    folder = core.workdir("plugins")
    try:
        plugin_folder = os.path.join(folder, "plugins")
        os.makedirs(plugin_folder)
        shutil.copy(os.path.join(core.VERIF, "harness", "recording.py"), os.path.join(plugin_folder, "recording_plugin.py"))
        with open(os.path.join(plugin_folder, "derived_plugin.py"), "w", encoding="utf-8") as derived_file:
            derived_file.write("from cutplace import checks, fields\n\n\nclass ShoutFieldFormat(fields.ChoiceFieldFormat):\n    pass\n\n\n"
                               "class KeyCheck(checks.IsUniqueCheck):\n    pass\n\n\n"
                               "class DecimalFieldFormat(fields.DecimalFieldFormat):\n    \"\"\"Takes the place of the class it extends.\"\"\"\n")
        # a second plugin folder with a module of the SAME file name that defines something else: both folders count
        second_folder = os.path.join(folder, "more_plugins")
        os.makedirs(second_folder)
        with open(os.path.join(second_folder, "derived_plugin.py"), "w", encoding="utf-8") as derived_file:
            derived_file.write("from cutplace import fields\n\n\nclass OtherFieldFormat(fields.TextFieldFormat):\n    pass\n")
        jobs_path = os.path.join(folder, "jobs.json")
        sample = [v for v in vectors if len(v["hist"]) == 1][:count]
        with open(jobs_path, "w", encoding="utf-8") as jobs_file:
            json.dump(sample, jobs_file)
        script = os.path.join(folder, "driver.py")
        with open(script, "w", encoding="utf-8") as script_file:
            script_file.write('''
import io, json, os, sys
sys.path.insert(0, %(repo)r)
sys.path.insert(0, %(verif)r)
import warnings; warnings.filterwarnings("ignore")
import logging; logging.disable(logging.CRITICAL)
from cutplace import interface, fields, checks
import gc
def descendants(cls):
    result = set()
    for sub in cls.__subclasses__():
        result.add(sub)
        result |= descendants(sub)
    return result
before_fields = descendants(fields.AbstractFieldFormat)
before_checks = descendants(checks.AbstractCheck)
interface.import_plugins(%(folder)r)
interface.import_plugins(%(second)r)
# the caller keeps nothing from import_plugins(): whatever the folders define has to survive a collection
gc.collect()
new_fields = sorted(c.__name__ for c in descendants(fields.AbstractFieldFormat) - before_fields)
new_checks = sorted(c.__name__ for c in descendants(checks.AbstractCheck) - before_checks)
if new_fields != ["DecimalFieldFormat", "OtherFieldFormat", "RecordingFieldFormat", "ShoutFieldFormat"] or new_checks != ["KeyCheck", "RecordingCheck"]:
    print("PLUGINPROBLEM after import_plugins() and a garbage collection the classes of the folder are %%r and %%r" %% (new_fields, new_checks))
    interface.import_plugins(%(folder)r)
    keep = descendants(fields.AbstractFieldFormat) | descendants(checks.AbstractCheck)
# a plugin class that extends a shipped class (documented: "inherit from an existing class") is resolved by its name
from cutplace import errors, validio
try:
    derived_cid = interface.Cid()
    derived_cid.read("derived", [["D", "Format", "Delimited"], ["D", "Item delimiter", ","], ["F", "a", "", "", "", "Shout", "x,y"], ["F", "d", "", "X", "", "Decimal"], ["C", "k", "Key", "a"]])
    kinds = (type(derived_cid.field_formats[0]).__name__, type(derived_cid.check_map["k"]).__name__, type(derived_cid.field_formats[1]).__module__)
    if kinds != ("ShoutFieldFormat", "KeyCheck", "derived_plugin"):
        print("PLUGINPROBLEM types Shout, Key and the plugin's Decimal resolved to %%r" %% (kinds,))
    verdicts = []
    with validio.Reader(derived_cid, io.StringIO("x,\\r\\ny,1.5\\r\\nx,\\r\\nz,\\r\\n"), on_error="yield") as reader:
        for item in reader.rows():
            verdicts.append("bad" if isinstance(item, Exception) else "ok")
    if verdicts != ["ok", "ok", "bad", "bad"]:
        print("PLUGINPROBLEM rows x, y, x, z under the derived plugin classes gave %%r" %% (verdicts,))
except errors.CutplaceError as error:
    print("PLUGINPROBLEM a CID that uses plugin classes derived from ChoiceFieldFormat and IsUniqueCheck: %%s" %% error)
import types
# harness.recording is what sessionlib would import; give it the plugin's classes and log instead of defining new ones
field_class = [c for c in descendants(fields.AbstractFieldFormat) if c.__name__ == "RecordingFieldFormat"][0]
shim = types.ModuleType("harness.recording")
shim.LOG = field_class.validated_value.__globals__["LOG"]
sys.modules["harness.recording"] = shim
import harness
harness.recording = shim
from harness import session_check
results = []
for vec in json.load(open(%(jobs)r)):
    findings = session_check.replay_history(vec, "delimited")
    results.append([[index, problems] for index, problems, signature, observed in findings])
print("RESULTS " + json.dumps(results))
''' % {"repo": core.REPO, "verif": core.VERIF, "folder": plugin_folder, "second": second_folder, "jobs": jobs_path})
        env = dict(os.environ)
        env.pop("VERIF_CALL_LOG", None)
        process = subprocess.run(["/venv/bin/python", script], stdout=subprocess.PIPE, stderr=subprocess.STDOUT,
                                 universal_newlines=True, env=env, cwd=folder)
        lines = [line for line in process.stdout.splitlines() if line.startswith("RESULTS ")]
        problems = [line[len("PLUGINPROBLEM "):] for line in process.stdout.splitlines() if line.startswith("PLUGINPROBLEM ")]
        if (process.returncode != 0 or not lines) and problems:
            # what the probes found can make everything after them fail (no CID can be read at all): report the probes
            return [], [], problems + ["the replay of the histories then failed: %s" % process.stdout.strip().splitlines()[-1][:300]]
        if process.returncode != 0 or not lines:
            raise core.MachineryError("plugin subprocess failed: %s" % process.stdout[-1500:])
        return sample, json.loads(lines[0][len("RESULTS "):]), problems
    finally:
        core.cleanup(folder)


def lengths_in_parts(report):
    """
    'A field's value hook is called only for cells that ... satisfy the declared length' -- for lengths declared in several
    parts with gaps between them and open ends: the hook of a user-defined field format runs iff the cell is not empty and its
    number of characters lies in one of the parts; in a row, the hook of the next column runs iff this cell was accepted.
    """
    import io
    core.import_repo()
    import cutplace
    from cutplace import data, errors, fields

    calls = []

    class CountingFieldFormat(fields.AbstractFieldFormat):
        def validated_value(self, value):
            calls.append((self.field_name, value))
            return value

    declarations = {"1...2, 5...6": [(1, 2), (5, 6)], "...1, 3...": [(0, 1), (3, 99)], "2, 4, 6": [(2, 2), (4, 4), (6, 6)], "...2, 7...8": [(0, 2), (7, 8)],
                    "1...1, 3...4, 8...": [(1, 1), (3, 4), (8, 99)], "3...5": [(3, 5)], "4...": [(4, 99)]}
    for fmt in ("delimited", "excel", "ods"):
        data_format = data.DataFormat(fmt)
        data_format.validate()
        for declaration, parts in sorted(declarations.items()):
            field = CountingFieldFormat("f", True, declaration, "", data_format)
            for size in range(0, 11):
                cell = "x" * size
                del calls[:]
                report.replayed += 1
                try:
                    field.validated(cell)
                    verdict = "accepted"
                except errors.FieldValueError:
                    verdict = "rejected"
                inside = any(lower <= size <= upper for lower, upper in parts)
                want_calls = [("f", cell)] if (size > 0 and inside) else []
                want = "accepted" if (size == 0 or inside) else "rejected"
                if calls != want_calls or verdict != want:
                    report.violation("c20", {"length": declaration, "cell": cell, "format": fmt}, [want, want_calls], [verdict, list(calls)],
                                     "user-defined field format (format %s, length %r), cell of %d characters: is %s with the value hook called %d time(s) "
                                     "but must be %s with %d call(s)" % (fmt, declaration, size, verdict, len(calls), want, len(want_calls)))
                    return
    # ... and in a row: the second column's hook runs iff the first cell was accepted
    cid = cutplace.Cid()
    cid.read("cid", [["D", "Format", "delimited"], ["F", "a", "", "", "1...2, 5...6", "Counting"], ["F", "b", "", "", "", "Counting"]])
    for size in range(1, 8):
        del calls[:]
        report.replayed += 1
        list(cutplace.rows(cid, io.StringIO("%s,y\r\n" % ("x" * size), newline=""), on_error="yield"))
        want_calls = [("a", "x" * size), ("b", "y")] if size in (1, 2, 5, 6) else []
        if calls != want_calls:
            report.violation("c20", {"length": "1...2, 5...6", "row": ["x" * size, "y"]}, want_calls, list(calls),
                             "row %r under a first field of length '1...2, 5...6': the value hooks were called for %r but must be called for %r" % (
                                 ["x" * size, "y"], list(calls), want_calls))
            return
    report.notes["lengths_in_parts"] = "value hook calls under 7 length declarations with gaps x cells of 0..10 characters x 3 formats"


def extra(report, tier):
    lengths_in_parts(report)
    vectors = extra.vectors
    sample, results, plugin_problems = plugin_run(vectors, 150 if tier == "quick" else 1500)
    for problem in plugin_problems:
        report.violation("c20", {"via": "plugin folder"}, None, None, "classes imported from a plugin folder: " + problem)
    for vec, findings in zip(sample, results):
        report.replayed += 1
        for index, problems in findings:
            report.violation("c20", {"vec": vec, "fmt": "delimited", "via": "plugin folder"}, vec["hist"][index]["fresh"], None,
                             "classes imported from a plugin folder: run %d: %s" % (index + 1, "; ".join(problems)))
    report.notes["plugin_folder_subprocess"] = "%d histories replayed with the classes found by import_plugins()" % len(sample)
    # self-test of the call comparison: drop one predicted call
    for vec in vectors:
        calls = vec["hist"][0]["fresh"].get("calls") or []
        if any(entry[0] == "value" for entry in calls):
            corrupted = copy.deepcopy(vec)
            predicted = corrupted["hist"][0]["fresh"]["calls"]
            predicted.remove([e for e in predicted if e[0] == "value"][0])
            corrupted["hist"][0]["pinnedror"] = corrupted["hist"][0]["fresh"]
            if not session_check.replay_history(corrupted, "delimited"):
                core.selftest_failed("a predicted call log with one value-hook call removed was not noticed")
            break
    else:
        core.selftest_failed("no history with a value-hook call")


def run(tier, report):
    original = session_check.explore

    def remember(*args, **kwargs):
        vectors = original(*args, **kwargs)
        if not hasattr(extra, "vectors"):
            extra.vectors = vectors
        return vectors

    session_check.explore = remember
    try:
        return session_props.run_plan("C20", tier, report, extra=extra, rule=(
            "one case = one history of reader / writer runs over tables whose cells are accepted by the hook, refused by the "
            "hook, empty-and-allowed, or refused by a guard; the recorded call sequence of recording plugin classes is compared "
            "with the predicted one; non-trivial = some row is rejected or several runs; distinct by history and format"))
    finally:
        session_check.explore = original


replay = session_check.replay
