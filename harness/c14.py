"""
C14 -- decided with spec/Session.tla (rows, rejections, checks, line ends; see harness/session_props.py for the plan and
DESIGN.md section 5) and, for what a single value looks like once it is written, with spec/Fields.tla: the writer pads a
fixed-width value, so it has to judge a value the way a reader judges the padded cell (Fields.tla, Pad).
"""
import io

from harness import c03, core, session_check, session_props

WRITER_TYPES = ("Text", "Integer")


def _writer_job(job):
    """One field, one cell: what the writer says, what it writes, and what reading that back gives."""
    vec, predicted = job
    import cutplace
    from cutplace import errors, validio
    problems = []
    fld = vec["fld"]
    for type_name in WRITER_TYPES:
        for good_char in c03.TYPES[type_name][1]:
            text = c03.spell(vec["cell"], good_char, fld["restricted"])
            padded = c03.spell(vec["padded"], good_char, fld["restricted"])
            rows = [["D", "Format", fld["fmt"]]]
            if fld["restricted"] != "none":
                rows.append(["D", "Allowed characters", c03.ALLOWED[fld["restricted"]]])
            rows.append(["F", "f", "", "X" if fld["emptyAllowed"] else "", c03.length_text(fld["length"]), type_name, ""])
            cid = cutplace.Cid()
            try:
                cid.read("cid", rows)
            except errors.InterfaceError:
                continue
            field = cid.field_formats[0]
            stripped = padded.strip(" ") if fld["fmt"] == "fixed" else padded
            if stripped:
                try:
                    field.validated_value(stripped)
                    hook = True
                except errors.FieldValueError:
                    hook = False
                except Exception:  # noqa -- C02 / C10 business
                    continue
            else:
                hook = True
            expected = predicted.get(hook)
            if expected is None:
                continue  # (the padded cell is a case the property text does not decide)
            what = "%s field (format %s, empty allowed %s, length %r, allowed characters %s): value %r" % (
                type_name, fld["fmt"], fld["emptyAllowed"], c03.length_text(fld["length"]), c03.ALLOWED.get(fld["restricted"], "any"), text)
            target = io.StringIO()
            writer = validio.Writer(cid, target)
            try:
                writer.write_row([text])
                said = "accept"
            except errors.DataError:
                said = "reject"
            except Exception as error:  # noqa
                problems.append("%s: the writer fails with %s: %s" % (what, type(error).__name__, error))
                continue
            try:
                writer.close()
            except errors.DataError:
                pass
            output = target.getvalue()
            if said != expected[0]:
                problems.append("%s: the writer %ss it, a reader %ss the cell %r it is written as" % (what, said, expected[0], padded))
            if said == "reject":
                if output != "":
                    problems.append("%s: refused, but %r was written" % (what, output))
                continue
            if fld["fmt"] == "fixed" and output.rstrip("\r\n") != padded:
                problems.append("%s: written as %r but must be written as %r" % (what, output, padded))
            if fld["fmt"] == "delimited" and text == "" :
                continue  # (a line without content is no row: Session.tla, row class "empty")
            try:
                back = list(cutplace.rows(cid, io.StringIO(output, newline="")))
                if back != [[padded]]:
                    problems.append("%s: written as %r, which reads back as %r" % (what, output, back))
            except errors.DataError as error:
                problems.append("%s: written as %r, which a reader under the same CID refuses: %s" % (what, output, error))
    return problems


def written_values(report, tier):
    """Fields.tla: every (field, cell) of the writer formats -- the writer's verdict is the reader's verdict on the padded cell."""
    result = core.tlc("MCFields", "Fields_writer.cfg", timeout=3000)
    core.require_coverage(result, ["GuardChars", "Strip", "GuardEmpty", "GuardLength", "Value"], "Fields/writer")
    report.add_tlc("Fields (writer's view): delimited and fixed x empty flag x length declarations x allowed characters x cells <= 4", result)
    vectors = result.by_tag("VEC")
    verdicts = {}
    for vec in vectors:
        key = core.json.dumps([vec["fld"], vec["cell"]], sort_keys=True)
        verdicts.setdefault(key, {})[vec["hook"]] = None if vec["undecided"] else vec["outcome"]
    jobs = []
    padded_short = 0
    for vec in vectors:
        if not vec["hook"]:
            continue  # one job per (field, cell); the hook verdict is measured
        if vec["fld"]["fmt"] == "fixed" and len(vec["cell"]) > vec["fld"]["length"][0][0][0]:
            # longer than the field (Session.tla, cell class "grd"): refused whatever it is made of -- blanks in front of or
            # behind a value that would fit count -- and nothing is written for it
            overlong = dict(vec)
            overlong["padded"] = vec["cell"]
            jobs.append((overlong, {True: ["reject", "length"], False: ["reject", "length"]}))
            continue
        predicted = verdicts.get(core.json.dumps([vec["fld"], vec["padded"]], sort_keys=True))
        if predicted is None:
            continue  # the padded cell is longer than the cells explored
        padded_short += vec["padded"] != vec["cell"]
        jobs.append((vec, predicted))
    if not padded_short:
        raise core.MachineryError("no value shorter than its fixed-width field among the writer's cases")
    outcomes = core.parallel_map(_writer_job, jobs, chunk=200)
    seen = {}
    for (vec, _), problems in zip(jobs, outcomes):
        report.replayed += 1
        for problem in problems:
            shape = (vec["fld"]["fmt"], vec["fld"]["restricted"], problem.split(": ", 2)[-1][:30])
            seen[shape] = seen.get(shape, 0) + 1
            if seen[shape] <= 1:
                report.violation("c14", {"field": vec["fld"], "cell": vec["cell"], "via": "written value"}, None, None, problem)
            else:
                report.violations.append({"what": problem})
    report.notes["written_values"] = "%d (field, value) cases written and read back, %d of them padded" % (len(jobs), padded_short)
    # self-test: a prediction turned around is noticed
    for vec, predicted in jobs:
        if predicted.get(True) and predicted[True][0] == "accept" and vec["padded"] != vec["cell"]:
            if not _writer_job((vec, {True: ["reject", "character"], False: ["reject", "character"]})):
                core.selftest_failed("C14: a corrupted prediction for a written value was not noticed")
            break
    else:
        core.selftest_failed("C14: no accepted padded value to corrupt")


def run(tier, report):
    return session_props.run_plan("C14", tier, report, extra=written_values)


replay = session_check.replay
