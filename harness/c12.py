"""
C12 -- delimited data round-trips through write and read for every accepted format.

spec/Delimited.tla: TLC explores (configuration, table) and checks RoundTrip on
a transcription of the csv writer / reader automata under the keyword mapping
of rowio._as_delimited_keywords and the acceptance rule of DataFormat.validate.
Every behaviour is replayed through DelimitedRowWriter / delimited_rows (and
cutplace.Writer / cutplace.rows); the transcription itself is compared with
Python's csv module on every behaviour (a difference there is a machinery
failure, not an alarm).
"""
import csv
import io
import os
import itertools

from harness import core

SYMBOL = {1: ",", 2: '"', 3: "\\", 4: "\r", 5: "\n", 6: " ", 7: "x", 8: "'"}
SPELL = {",": ",", '"': '"', "\\": "\\", "\r": "cr", "\n": "10", " ": "32", "x": "x", "'": "'", "\t": "tab", ";": ";",
         "|": "|", ":": ":", "~": "0x7e", "\x1f": "31", "^": "^"}
ITEM_DELIMITERS = [",", ";", "|", "\t", " ", ":", "\\", '"', "'", "x", "~", "\r", "\n", "\x1f"]
QUOTE_CHARACTERS = sorted("!\"#$%&'*+-/:;=?\\^_`~")
ESCAPE_CHARACTERS = ['"', "\\"]
LINE_DELIMITERS = ["any", "lf", "cr", "crlf"]


def make_format(delim, quote, esc, qall, line_delimiter="any", encoding=None, backwards=False):
    """The cutplace DataFormat for a concrete configuration, or the InterfaceError the loader raises.
    backwards: the property rows in the opposite order (a CID may give them in any order)."""
    from cutplace import data, errors
    try:
        data_format = data.DataFormat("delimited")
        settings = [("item_delimiter", SPELL.get(delim, delim)), ("quote_character", quote), ("escape_character", esc),
                    ("quoting", "all" if qall else "minimal"), ("line_delimiter", line_delimiter)]
        for name, value in (reversed(settings) if backwards else settings):
            data_format.set_property(name, value)
        if encoding is not None:
            data_format.set_property("encoding", encoding)
        data_format.validate()
        return data_format, None
    except errors.InterfaceError as error:
        return None, error


def round_trip(data_format, table):
    from cutplace import errors, rowio
    stream = io.StringIO(newline="")
    try:
        writer = rowio.DelimitedRowWriter(stream, data_format)
        writer.write_rows(table)
        text = stream.getvalue()
        back = list(rowio.delimited_rows(io.StringIO(text, newline=""), data_format))
        return text, ["ok", back]
    except errors.DataFormatError as error:
        return stream.getvalue(), ["err", str(error)]
    except Exception as error:  # noqa
        return stream.getvalue(), ["crash", "%s: %s" % (type(error).__name__, error)]


def csv_direct(kw, table):
    """Python's csv module under the keywords the specification derives (machinery check of the transcription)."""
    keywords = {"delimiter": kw["delim"], "quotechar": kw["quote"], "doublequote": kw["dq"],
                "escapechar": kw["esc"], "quoting": csv.QUOTE_ALL if kw["qall"] else csv.QUOTE_MINIMAL,
                "skipinitialspace": False, "strict": True, "lineterminator": "\r\n"}
    stream = io.StringIO(newline="")
    try:
        csv.writer(stream, **keywords).writerows(table)
        text = stream.getvalue()
        back = list(csv.reader(io.StringIO(text, newline=""), **keywords))
        return text, ["ok", back]
    except csv.Error:
        return stream.getvalue(), ["err"]


def concrete(seq, mapping):
    return "".join(mapping[c] for c in seq)


def replay(behaviour, report=None):
    core.import_repo()
    return _job(behaviour)[0]


def _job(vec):
    """Returns (problems, machinery problems)."""
    mapping = vec.get("mapping") or SYMBOL
    mapping = {int(k): v for k, v in mapping.items()}
    cfg = vec["cfg"]
    delim, quote, esc = mapping[cfg["delim"]], mapping[cfg["quote"]], mapping[cfg["esc"]]
    table = [[concrete(cell, mapping) for cell in row] for row in vec["table"]]
    data_format, refusal = make_format(delim, quote, esc, cfg["qall"], vec.get("line_delimiter", "any"))
    what = "item delimiter %r, quote %r, escape %r, quoting %s" % (delim, quote, esc, "all" if cfg["qall"] else "minimal")
    problems = []
    machinery = []
    # which formats the loader accepts is a function of the properties, not of the order of their rows
    _, refusal_backwards = make_format(delim, quote, esc, cfg["qall"], vec.get("line_delimiter", "any"), backwards=True)
    if (refusal is None) != (refusal_backwards is None):
        problems.append("%s: the loader %s the format when the property rows come in the opposite order (%s)" % (
            what, "refuses" if refusal is None else "accepts", refusal_backwards or refusal))
    if vec["phase"] == "rawread":
        return raw_read(vec, mapping, data_format, delim, quote, esc, what)
    if vec["phase"] == "refused":
        if data_format is not None:
            # the loader accepts what the specification refuses: then the round trip must hold for it
            for probe in ([["x", "y"]], [["", ""]], [[delim]], [[esc, "x"]], [["a" + delim + "b", "c"]]):
                text, back = round_trip(data_format, probe)
                if back != ["ok", probe]:
                    problems.append("%s is accepted by the loader but %r is written as %r and read back as %r" % (
                        what, probe, text, back[1]))
                    break
        return problems, machinery
    if data_format is None:
        # refusing is always safe for C12 (it speaks about accepted formats); nothing to check
        return problems, machinery
    text, back = round_trip(data_format, table)
    if back != ["ok", table]:
        problems.append("%s: table %r is written as %r and read back as %r" % (what, table, text, back[1]))
    # machinery: the transcription against Python's csv
    kw = {"delim": delim, "quote": quote, "dq": esc == quote, "esc": None if esc == quote else esc, "qall": cfg["qall"]}
    direct_text, direct_back = csv_direct(kw, table)
    model_text = concrete(vec["text"], mapping)
    model_back = vec["back"]
    model_back = ["ok", [[concrete(cell, mapping) for cell in row] for row in model_back[1]]] if model_back[0] == "ok" else ["err"]
    if direct_text != model_text or direct_back != model_back:
        machinery.append("%s, table %r: csv module gives %r / %r, the transcription %r / %r" % (
            what, table, direct_text, direct_back, model_text, model_back))
    return problems, machinery


def raw_read(vec, mapping, data_format, delim, quote, esc, what):
    """Text that no writer produced: delimited_rows must return what the csv reader automaton of the specification says."""
    from cutplace import errors, rowio
    problems, machinery = [], []
    if data_format is None:
        return problems, machinery
    text = concrete(vec["text"], mapping)
    model = vec["back"]
    model = ["ok", [[concrete(cell, mapping) for cell in row] for row in model[1]]] if model[0] == "ok" else ["err"]
    keywords = {"delimiter": delim, "quotechar": quote, "doublequote": esc == quote, "escapechar": None if esc == quote else esc,
                "quoting": csv.QUOTE_MINIMAL, "skipinitialspace": False, "strict": True}
    try:
        direct = ["ok", list(csv.reader(io.StringIO(text, newline=""), **keywords))]
    except csv.Error:
        direct = ["err"]
    if direct != model:
        machinery.append("%s, text %r: csv.reader gives %r, the transcription %r" % (what, text, direct, model))
        return problems, machinery
    for label, source in (("stream", lambda: io.StringIO(text, newline="")),):
        try:
            rows, disturbed = core.read_independently(lambda: rowio.delimited_rows(source(), data_format))
            observed = ["ok", rows]
            if disturbed is not None and disturbed != rows:
                observed = ["ok", disturbed]
        except errors.DataFormatError:
            observed = ["err"]
        except Exception as error:  # noqa
            observed = ["crash", "%s: %s" % (type(error).__name__, error)]
        if observed != model:
            problems.append("%s: delimited_rows(%r) gives %r but the text holds %r" % (what, text, observed[1:] and observed[1] or "a refusal",
                                                                                      model[1] if model[0] == "ok" else "a refusal"))
    return problems, machinery


def concrete_product(vectors, rng, per_config):
    """The full concrete configuration product of the property, each mapped onto the tables of its abstract class."""
    by_class = {}
    for vec in vectors:
        cfg = vec["cfg"]
        by_class.setdefault((cfg["delim"], cfg["quote"], cfg["esc"], cfg["qall"], vec["phase"]), []).append(vec)
    jobs = []
    for delim, quote, esc, qall, line in itertools.product(ITEM_DELIMITERS, QUOTE_CHARACTERS, ESCAPE_CHARACTERS,
                                                           (False, True), LINE_DELIMITERS):
        if delim == quote:
            abstract_delim = None
        elif delim == esc:
            abstract_delim = 3 if esc == "\\" else None
        elif delim == "\r":
            abstract_delim = 4
        elif delim == "\n":
            abstract_delim = 5
        elif delim == " ":
            abstract_delim = 6
        else:
            abstract_delim = 1
        if abstract_delim is None:
            continue
        abstract_quote = 2
        abstract_esc = 2 if esc == quote else 3
        if abstract_delim == 3 and abstract_esc != 3:
            continue
        mapping = {1: delim if abstract_delim == 1 else ",", 2: quote, 3: esc if abstract_esc == 3 else "\\", 4: "\r", 5: "\n",
                   6: " ", 7: "x", 8: "'"}
        if abstract_delim != 1:
            mapping[abstract_delim] = delim
        # characters must stay distinct where the abstract symbols are distinct
        if len(set(mapping.values())) != len(mapping):
            spare = [c for c in "x@%&yz" if c not in (delim, quote, esc)]
            used = {}
            for symbol in sorted(mapping):
                if mapping[symbol] in used and symbol not in (abstract_delim, 2, abstract_esc):
                    mapping[symbol] = spare.pop()
                used[mapping[symbol]] = symbol
            if len(set(mapping.values())) != len(mapping):
                continue
        for phase in ("read", "refused"):
            pool = by_class.get((abstract_delim, abstract_quote, abstract_esc, qall, phase), [])
            if not pool:
                continue
            for vec in (rng.sample(pool, per_config) if len(pool) > per_config else pool):
                job = dict(vec)
                job["mapping"] = {str(k): v for k, v in mapping.items()}
                job["line_delimiter"] = line
                jobs.append(job)
    return jobs


def run(tier, report):
    core.import_repo()
    rng = core.rng(12)
    cfg = "Delimited_quick.cfg" if tier == "quick" else "Delimited_deep.cfg"
    result = core.tlc("MCDelimited", cfg, timeout=7000, share=True)
    core.require_coverage(result, ["Refuse", "AddRow", "AddCell", "AddChar", "Write", "Read"], "Delimited")
    report.add_tlc("Delimited %s: 40 configuration classes x all tables within the bounds" % cfg, result)
    vectors = result.by_tag("VEC")
    raw = core.tlc("MCDelimited", "Delimited_raw.cfg" if tier == "quick" else "Delimited_raw_deep.cfg", timeout=7000, share=True)
    core.require_coverage(raw, ["TypeChar", "ReadRaw"], "Delimited raw")
    report.add_tlc("Delimited raw reading: every text of up to %d characters x 20 configuration classes" % (4 if tier == "quick" else 6), raw)
    raw_vectors = [vec for vec in raw.by_tag("VEC") if vec["phase"] == "rawread"]
    pinned = core.tlc("MCDelimited", "Delimited_pinned.cfg", expect_violation=True, coverage=False)
    if pinned.violated != "RoundTrip":
        raise core.MachineryError("the configuration with LoaderRefusesClash = FALSE (D7) found no counterexample")
    report.notes["expected_counterexamples"] = [{"cfg": "Delimited_pinned.cfg", "deviation": "D7 loader accepts item delimiter "
                                                 "= escape character / line break", "violated": pinned.violated}]
    jobs = vectors if tier == "thorough" or len(vectors) <= 30000 else rng.sample(sorted(vectors, key=core.json.dumps), 30000)
    jobs = list(jobs) + concrete_product(vectors, rng, 2 if tier == "quick" else 12)
    jobs += raw_vectors if len(raw_vectors) <= 400000 else rng.sample(sorted(raw_vectors, key=core.json.dumps), 400000)
    outcomes = core.parallel_map(_job, jobs, chunk=400)
    seen = {}
    for vec, (problems, machinery) in zip(jobs, outcomes):
        report.replayed += 1
        nontrivial = any(any(c != 7 for c in cell) for row in vec["table"] for cell in row) or vec["phase"] in ("refused", "rawread")
        report.count(core.json.dumps([vec["cfg"], vec["table"], vec.get("mapping"), vec.get("line_delimiter")], sort_keys=True),
                     nontrivial)
        if nontrivial and len(vec["table"]) > 0 and "mapping" in vec:
            report.sample({"cfg": vec["cfg"], "characters": vec["mapping"], "table": vec["table"], "phase": vec["phase"]}, limit=5)
        if machinery:
            raise core.MachineryError("csv transcription differs from Python's csv module: %s" % machinery[0])
        for problem in problems:
            shape = problem.split(":")[0][:70]
            seen[shape] = seen.get(shape, 0) + 1
            if seen[shape] <= 1:
                report.violation("c12", vec, {"back": ["ok", vec["table"]]}, None, problem)
            else:
                report.violations.append({"what": problem})
    # cells of any length: csv's default field size limit (131072) is not a property of delimited data
    for length in (131072, 131073, 1000000):
        for fmt_args in ((",", '"', '"', False), (";", "'", "\\", True)):
            data_format, _ = make_format(*fmt_args)
            table = [["a", "x" * length], ["b", "c"]]
            text, back = round_trip(data_format, table)
            report.replayed += 1
            if back != ["ok", table]:
                report.violation("c12", {"long_cell": length, "cfg": list(fmt_args)}, None, None,
                                 "item delimiter %r, quote %r, escape %r: a table with a cell of %d characters is read back as %s" % (
                                     fmt_args[0], fmt_args[1], fmt_args[2], length, str(back[1])[:120]))
    # two readers at once (a short file compared with a long one, row by row): the one that was started first ends first,
    # the other one goes on and still meets a long cell
    data_format, _ = make_format(",", '"', '"', False)
    long_table = [["b", "c"], ["a", "x" * 200000], ["d", "e" * 140000]]
    long_text, _ = round_trip(data_format, long_table)
    report.replayed += 1
    try:
        from cutplace import rowio
        short_reader = rowio.delimited_rows(io.StringIO("p,q\r\nr,s\r\n", newline=""), data_format)
        first_short = next(short_reader)
        long_reader = rowio.delimited_rows(io.StringIO(long_text, newline=""), data_format)
        got = [next(long_reader)]
        rest_short = list(short_reader)       # (ends here)
        del short_reader
        got += list(long_reader)
        if got != long_table or [first_short] + rest_short != [["p", "q"], ["r", "s"]]:
            got = "rows of %s cells with lengths %s" % ([len(row) for row in got], [[len(cell) for cell in row] for row in got])
        else:
            got = None
    except Exception as error:  # noqa
        got = "%s: %s" % (type(error).__name__, str(error)[:150])
    if got is not None:
        report.violation("c12", {"two_readers": True}, None, got,
                         "a table with cells of 200000 and 140000 characters, read while an earlier reader of another table ends: %s" % got)
    # through files: the writer encodes, the reader decodes -- with the encoding the CID names, for tables whose first
    # characters are ones that text tools like to treat specially (a zero width no-break space is data like any other)
    folder = core.workdir("c12files")
    try:
        for encoding in ("utf-8", "UTF8", "utf-16", "utf-8-sig", "cp1252", "ascii", "iso-8859-15"):
            for first in ("\ufeffname", "\ufeff", "\ufffe", "name", "#name", "\u00e4", " name", "'name", ""):
                if encoding in ("cp1252", "ascii", "iso-8859-15") and not all(ord(ch) < 128 for ch in first):
                    continue
                for fmt_args in ((",", '"', '"', False), (",", '"', '"', True), ("\t", "'", "\\", False)):
                    data_format, _ = make_format(*fmt_args, encoding=encoding)
                    table = [[first, "note"], ["1", first], ["x\r\ny", "p\rq"], ["\r", "a\nb"]]
                    path = os.path.join(folder, "table.csv")
                    report.replayed += 1
                    try:
                        from cutplace import rowio
                        with rowio.DelimitedRowWriter(path, data_format) as writer:
                            writer.write_rows(table)
                        back = list(rowio.delimited_rows(path, data_format))
                    except Exception as error:  # noqa
                        back = "%s: %s" % (type(error).__name__, error)
                    if back != table:
                        report.violation("c12", {"file_table": table, "encoding": encoding, "cfg": list(fmt_args)}, table, back,
                                         "encoding %s, item delimiter %r, quoting %s: table %r written to a file reads back as %r" % (
                                             encoding, fmt_args[0], "all" if fmt_args[3] else "minimal", table, back))
    finally:
        core.cleanup(folder)
    if not report.violations:
        for vec in vectors:
            if vec["phase"] == "read" and vec["table"] and vec["table"][0] and vec["table"][0][0]:
                corrupted = dict(vec)
                corrupted["table"] = [[cell + [7] for cell in row] for row in vec["table"]]
                corrupted["text"] = vec["text"]
                try:
                    problems, machinery = _job(corrupted)
                except Exception:  # noqa
                    machinery = ["exception"]
                    problems = []
                if not machinery and not problems:
                    core.selftest_failed("C12: a corrupted table was not noticed")
                break
    report.exhaustive = tier == "thorough"
    report.assumptions += ["Python's csv module is modelled, not proved: the transcription is compared with it on every behaviour",
                           "the writer's line terminator is csv's default CR LF (DelimitedRowWriter passes none)",
                           "initial-space skipping is off"]
    return report.finish(rule="one case = (configuration: item delimiter, quote, escape, quoting, line delimiter; table of strings); "
                              "non-trivial = some cell holds a special character, or the configuration is one the loader must refuse; "
                              "distinct by configuration, character assignment and table")
