"""
C19 -- generated SQL DDL mirrors the CID.

spec/Sql.tla: TLC explores 4 dialects x integer ranges with limits
+-(2^k + d) around every type boundary (symbolic numbers) and field lists of
the other field types, through sql_ansi_type and the dialect ladders, and
checks ColumnHoldsBothLimits / OneColumnPerFieldInOrder. Every behaviour is
replayed: the CID is built, create_table_statement() is parsed back into
columns, and each column is judged by the capacity table of its dialect with
real (unbounded) integers.
"""
import re

from harness import core

DIALECT = {"ansi": "ANSI", "pl": "PL/SQL", "tsql": "Transact-SQL", "db2": "DB2"}


def number(symbol):
    magnitude = symbol["d"] if symbol["k"] == 0 else 2 ** symbol["k"] + symbol["d"]
    return -magnitude if symbol["neg"] else magnitude


def field_row(field):
    mark = "X" if field["empty"] else ""
    kind = field["t"]
    if kind == "Integer":
        lo, hi = number(field["lo"]), number(field["hi"])
        if field.get("parts") and field.get("open", "none") == "none" and lo < 0 <= hi:
            # the same range written in two parts, the upper one first: the column has to hold the limits of the whole rule
            return ["F", field["name"], "", mark, "", "Integer", "0...%d, %d...-1" % (hi, lo)]
        rule = {"none": "%d...%d" % (number(field["lo"]), number(field["hi"])), "lo": "...%d" % number(field["hi"]),
                "hi": "%d..." % number(field["lo"])}[field.get("open", "none")]
        return ["F", field["name"], "", mark, "", "Integer", rule]
    if kind == "Decimal":
        def spell(limit, digit):
            before, after = limit
            return (digit * before if before else "0") + (("." + digit * after) if after else "")
        lower, upper = field["limits"]
        rule = "%s...%s" % (spell(lower, "1"), spell(upper, "9"))
        return ["F", field["name"], "", mark, "", "Decimal", rule]
    length = ("0...%d" if field.get("minzero") else "...%d") % field["len"][0] if field["len"] else ""
    rule = {"Text": "", "Choice": "a, b", "DateTime": "YYYY-MM-DD", "Pattern": "a*"}[kind]
    return ["F", field["name"], "", mark, length, kind, rule]


COLUMN_RE = re.compile(r'^\s+("?)([A-Za-z_][A-Za-z0-9_]*)("?) ([a-z0-9]+)(?:\((\d+)(?:, (\d+))?\))?( not null)?( default .*)?$')


def parse(statement):
    lines = statement.splitlines()
    if not lines or not lines[0].startswith("create table ") or lines[-1] != ");":
        return None
    columns = []
    for line in lines[1:-1]:
        match = COLUMN_RE.match(line.rstrip(","))
        if not match:
            return None
        columns.append({"name": match.group(2), "quoted": match.group(1) == '"' and match.group(3) == '"', "type": match.group(4),
                        "size": [int(g) for g in (match.group(5), match.group(6)) if g is not None], "notnull": bool(match.group(7))})
    return columns


def holds(dialect, column, value):
    kind = column["type"]
    if kind == "tinyint":
        return 0 <= value <= 255
    if kind == "smallint":
        return -2 ** 15 <= value <= 2 ** 15 - 1
    if kind in ("int", "integer"):
        return True if dialect in ("ansi", "pl") else -2 ** 31 <= value <= 2 ** 31 - 1
    if kind == "bigint":
        return -2 ** 63 <= value <= 2 ** 63 - 1
    if kind in ("decimal", "number"):
        # a declared precision the dialect has (Oracle number and Transact-SQL decimal: 38 digits, DB2 decimal: 31), with
        # enough digits before the decimal point
        if not column["size"] or not 1 <= column["size"][0] <= MAX_PRECISION[dialect]:
            return False
        digits = column["size"][0] - (column["size"][1] if len(column["size"]) > 1 else 0)
        return abs(value) <= 10 ** digits - 1
    return False


MAX_PRECISION = {"ansi": 38, "pl": 38, "tsql": 38, "db2": 31}
SIZED_TYPES = ("decimal", "number", "varchar", "varchar2", "char")


SPELLINGS = {"lower": str.lower, "UPPER": str.upper, "Capitalised": str.capitalize}


def _job(vec):
    """SQL keywords do not depend on case: the behaviour is replayed with the field names in three spellings."""
    problems, signature = [], None
    for label, spell_name in sorted(SPELLINGS.items()):
        spelled = dict(vec)
        spelled["fields"] = [dict(field, name=spell_name(field["name"])) for field in vec["fields"]]
        more, found = _job_spelled(spelled)
        problems.extend(more if label == "lower" else ["field names %s: %s" % (label, problem) for problem in more])
        signature = signature or found
        if more:
            break
    if not problems and any(f["t"] == "Integer" and f.get("open", "none") == "none" and number(f["lo"]) < 0 <= number(f["hi"])
                            for f in vec["fields"]):
        in_parts = dict(vec)
        in_parts["fields"] = [dict(field, parts=True) for field in vec["fields"]]
        more, found = _job_spelled(in_parts)
        problems.extend("rule in two parts: %s" % problem for problem in more)
        signature = signature or found
    return problems, signature


def _job_spelled(vec):
    import cutplace
    from cutplace import sql
    problems = []
    signature = None
    cid = cutplace.Cid()
    cid.read("cid", [["D", "Format", "delimited"]] + [field_row(f) for f in vec["fields"]])
    what = "%s DDL for fields %s" % (DIALECT[vec["dialect"]], [field_row(f)[1:] for f in vec["fields"]])
    try:
        dialect = sql.SQL_NAME_TO_DIALECT_MAP[DIALECT[vec["dialect"]]]
        factory = sql.SqlFactory(cid, "some_table", dialect)
        statement = factory.create_table_statement()
        # the statement is a function of CID and dialect: asking the same factory again, or after its fields have been
        # looked at, gives the same statement
        field_count = len(list(factory.sql_fields()))
        again = factory.create_table_statement()
        other = sql.SqlFactory(cid, "some_table", dialect)
        list(other.sql_fields())
        after_fields = other.create_table_statement()
    except Exception as error:  # noqa
        return ["%s: create_table_statement fails with %s: %s" % (what, type(error).__name__, error)], None
    if again != statement or after_fields != statement or field_count != len(vec["fields"]):
        return ["%s: asked again the factory answers %r (sql_fields() has %d items), after sql_fields() a fresh factory answers %r, "
                "but the first answer was %r" % (what, again, field_count, after_fields, statement)], None
    columns = parse(statement)
    if columns is None:
        return ["%s: statement cannot be parsed back: %r" % (what, statement)], None
    if len(columns) != len(vec["fields"]):
        return ["%s: %d columns for %d fields: %r" % (what, len(columns), len(vec["fields"]), statement)], None
    for field, predicted, column in zip(vec["fields"], vec["columns"], columns):
        where = "%s: column %r" % (what, column)
        if column["name"] != field["name"]:
            problems.append("%s: is not the column of field %r (order)" % (where, field["name"]))
            continue
        if column["quoted"] != predicted["quoted"]:
            problems.append("%s: name is %squoted but %s a keyword of the dialect" % (
                where, "" if column["quoted"] else "not ", "is" if predicted["quoted"] else "is not"))
        if column["notnull"] != (not field["empty"]):
            problems.append("%s: is %s but the field %s be empty" % (where, "NOT NULL" if column["notnull"] else "nullable",
                                                                      "may" if field["empty"] else "must not"))
        if column["size"] and column["type"] not in SIZED_TYPES:
            problems.append("%s: the %s type of the dialect takes no size" % (where, column["type"]))
        if field["t"] == "Integer" and field.get("open", "none") != "none":
            # no limit on one side: the property asks nothing of the type; the model names the dialect's default integer type
            if column["type"] != predicted["type"]:
                problems.append("%s: must be the default integer type %s for a range without %s limit" % (
                    where, predicted["type"], "lower" if field["open"] == "lo" else "upper"))
        elif field["t"] == "Integer":
            lo, hi = number(field["lo"]), number(field["hi"])
            if not (holds(vec["dialect"], column, lo) and holds(vec["dialect"], column, hi)):
                adjusted = [v if v >= 0 else -(v + 1) for v in (lo, hi)]
                if vec["dialect"] == "tsql" and column["type"] == "tinyint" and lo < 0 and max(adjusted) <= 255:
                    signature = "tsql-tinyint-negative"
                problems.append("%s: cannot store the range %d...%d" % (where, lo, hi))
        elif field["t"] == "Decimal":
            if column["size"] != list(predicted["size"]) or column["type"] != predicted["type"]:
                problems.append("%s: must be %s(%d, %d) for rule %r" % (where, predicted["type"], predicted["size"][0],
                                                                       predicted["size"][1], field_row(field)[6]))
        elif field["t"] == "DateTime":
            if column["type"] != "date":
                problems.append("%s: must be a date column" % where)
        else:
            if column["type"] != predicted["type"] or column["size"] != list(field["len"]):
                problems.append("%s: must be %s with length %s" % (where, predicted["type"], field["len"]))
    return problems, signature


def wide_integers(report):
    """
    Integer ranges of 32 to 38 digits (beyond what the symbolic numbers of Sql.tla reach, within what Oracle and Transact-SQL
    can declare): the column has to hold both limits. The oracle is holds(), i.e. the declared precision against the limits.
    """
    import cutplace
    from cutplace import sql
    for digits in (32, 35, 38):
        for rule, lo, hi in (("0...%s" % ("9" * digits), 0, 10 ** digits - 1), ("-%s...5" % ("1" + "0" * (digits - 1)), -(10 ** (digits - 1)), 5)):
            for name in ("pl", "tsql"):
                report.replayed += 1
                cid = cutplace.Cid()
                cid.read("cid", [["D", "Format", "delimited"], ["F", "wide_id", "", "", "", "Integer", rule]])
                statement = sql.SqlFactory(cid, "some_table", sql.SQL_NAME_TO_DIALECT_MAP[DIALECT[name]]).create_table_statement()
                columns = parse(statement)
                if not columns or len(columns) != 1 or not (holds(name, columns[0], lo) and holds(name, columns[0], hi)):
                    report.violation("c19", {"wide_integer": rule, "dialect": name}, "a column that holds %d digits" % digits, statement,
                                     "%s DDL for an Integer field with rule %s: column %s cannot store the limits (%d digits)" % (
                                         DIALECT[name], rule, columns[0] if columns else statement, digits))


def replay(behaviour, report=None):
    core.import_repo()
    return _job(behaviour)[0]


def run(tier, report):
    core.import_repo()
    wide_integers(report)
    result = core.tlc("MCSql", "Sql_ideal.cfg")
    core.require_coverage(result, ["AddColumn"], "Sql")
    report.add_tlc("Sql: 4 dialects x all integer ranges over 75 symbolic limits (+-(2^k+d), k in 7,8,15,16,31,32,63) + field lists", result)
    pinned = core.tlc("MCSql", "Sql_pinned.cfg", expect_violation=True, coverage=False)
    if pinned.violated != "ColumnHoldsBothLimits":
        raise core.MachineryError("TinyintNeedsNonNegative = FALSE (D11) gave no counterexample")
    report.notes["expected_counterexamples"] = [{"cfg": "Sql_pinned.cfg", "deviation": "D11 Transact-SQL tinyint for ranges with a negative lower limit"}]
    vectors = result.by_tag("VEC")
    outcomes = core.parallel_map(_job, vectors, chunk=300)
    shapes = {}
    for vec, (problems, signature) in zip(vectors, outcomes):
        report.replayed += 1
        report.count(core.json.dumps([vec["dialect"], vec["fields"]]), True)
        if vec["fields"][0]["t"] == "Integer" and vec["fields"][0]["lo"]["k"] == 31 and len(report.samples) < 4:
            report.sample({"dialect": vec["dialect"], "range": [number(vec["fields"][0]["lo"]), number(vec["fields"][0]["hi"])],
                           "predicted_type": vec["columns"][0]["type"]})
        for problem in problems:
            shape = problem.split(": column")[0][:12] + problem.rsplit(": ", 1)[1][:30]
            shapes[shape] = shapes.get(shape, 0) + 1
            if signature or shapes[shape] <= 2:
                report.violation("c19", vec, vec["columns"], None, problem, signature=signature)
            else:
                report.violations.append({"what": problem})
    if not report.violations:
        for vec in vectors:
            if vec["fields"][0]["t"] == "Decimal":
                corrupted = core.json.loads(core.json.dumps(vec))
                corrupted["columns"][0]["quoted"] = not corrupted["columns"][0]["quoted"]
                if not _job(corrupted)[0]:
                    core.selftest_failed("C19: a corrupted predicted quoting was not noticed")
                break
    report.exhaustive = True
    report.assumptions += ["ANSI and Oracle 'int' are implementation-defined and never judged too small; decimal(p) / number(p, 0) hold "
                           "10^p - 1", "the keyword sets of the dialects are data of the product; the specification tabulates 8 names",
                           "only Integer fields with a bounded range are generated"]
    return report.finish(rule="one case = (dialect, field list) from TLC: single Integer fields over all ordered pairs of symbolic "
                              "limits, and lists of <= 2 other fields; distinct by dialect and field list; all non-trivial")
