"""
C13 -- fixed-width reading is lossless and aligned.

spec/FixedReader.tla: TLC explores the reader machine for every input string
(exhaustively up to a length, and longer well-formed files with one mutation
by simulation) x width lists x delimiter settings and checks it against the
directly stated language (Parse). Every behaviour is replayed through
cutplace.rowio.fixed_rows; the oracle is Parse(input).
"""
import io

from harness import core

CHAR = {"a": "a", "b": "b", "CR": "\r", "LF": "\n"}
DELIM = {"none": None, "lf": "\n", "cr": "\r", "crlf": "\r\n", "any": "any"}
ACTIONS = ["StartReading", "ReadField", "SkipDelimiter"]


def text_of(chars):
    return "".join(CHAR[c] for c in chars)


def observe(vec):
    from cutplace import errors, rowio
    text = text_of(vec["input"])
    fields = [("f%d" % i, width) for i, width in enumerate(vec["widths"], 1)]
    def reader(layout=None):
        return rowio.fixed_rows(io.StringIO(text, newline=""), "utf-8", layout or fields, DELIM[vec["delim"]])

    try:
        rows = list(reader())
        # every call is its own copy of the machine (the pushed-back character and the position belong to the call):
        # a reader abandoned after its first row, and a second reader advanced in lockstep, leave this one alone
        if len(rows) >= 2:
            abandoned = reader()
            next(abandoned)
            first, second = reader(), reader()
            lockstep = []
            for row in first:
                lockstep.append(row)
                next(second, None)
            if lockstep != rows:
                return {"status": "ok", "rows": lockstep, "note": "read after another reader was abandoned following its "
                                                                  "first row, and in lockstep with a second reader"}
            del abandoned
        result = {"status": "ok", "rows": rows}
    except errors.DataFormatError as error:
        result = {"status": "err", "error": str(error)}
    except Exception as error:  # noqa
        result = {"status": "crash", "error": "%s: %s" % (type(error).__name__, error)}
    # the same characters as a file: a path is read with the declared encoding and WITHOUT any translation of line ends
    if result["status"] != "crash":
        import os
        folder = core.workdir("c13file%d" % os.getpid())
        try:
            path = os.path.join(folder, "fixed.txt")
            with open(path, "wb") as target:
                target.write(text.encode("utf-8"))
            try:
                from_path = {"status": "ok", "rows": list(rowio.fixed_rows(path, "utf-8", fields, DELIM[vec["delim"]]))}
            except errors.DataFormatError as error:
                from_path = {"status": "err", "error": str(error)}
            except Exception as error:  # noqa
                from_path = {"status": "crash", "error": "%s: %s" % (type(error).__name__, error)}
        finally:
            core.cleanup(folder)
        if (from_path["status"], from_path.get("rows")) != (result["status"], result.get("rows")):
            from_path["note"] = "read from a file with these bytes instead of a stream"
            return from_path
    # the names of the fields are labels for messages: a layout with several columns of the same name ("filler") is the
    # same layout and must be read the same way, well-formed or not
    if len(fields) >= 2 and result["status"] != "crash":
        try:
            same_names = {"status": "ok", "rows": list(reader([("filler", width) for _, width in fields]))}
        except errors.DataFormatError as error:
            same_names = {"status": "err", "error": str(error)}
        except Exception as error:  # noqa
            same_names = {"status": "crash", "error": "%s: %s" % (type(error).__name__, error)}
        if (same_names["status"], same_names.get("rows")) != (result["status"], result.get("rows")):
            same_names["note"] = "layout whose fields all have the same name"
            return same_names
    return result


def problems_of(vec, observed):
    expected = vec["parse"]
    text = text_of(vec["input"])
    what = "fixed_rows(%r, widths=%s, line delimiter=%s)" % (text, vec["widths"], vec["delim"])
    if observed["status"] == "crash":
        return ["%s: neither rows nor a data-format error: %s" % (what, observed["error"])]
    if expected[0] == "err":
        if observed["status"] != "err":
            return ["%s%s: malformed input was silently read as %s" % (what, " (%s)" % observed["note"] if "note" in observed else "",
                                                                       observed["rows"])]
        return []
    want = [[text_of(item) for item in row] for row in expected[1]]
    if observed["status"] == "err":
        return ["%s: well-formed input refused: %s" % (what, observed["error"])]
    if observed["rows"] != want:
        return ["%s%s: returns %s but the input holds %s" % (what, " (%s)" % observed["note"] if "note" in observed else "",
                                                             observed["rows"], want)]
    return []


_FORMATS = {}


def written_back(vec):
    """
    The other direction: the rows the specification reads from the input are written with FixedRowWriter; the text must be
    the records with the declared line delimiter after each, and reading it gives the rows again (whatever the cells hold).
    """
    from cutplace import data, rowio
    if vec["parse"][0] != "ok" or not vec["parse"][1]:
        return []
    rows = [[text_of(item) for item in row] for row in vec["parse"][1]]
    if vec["delim"] not in _FORMATS:
        data_format = data.DataFormat("fixed")
        data_format.set_property("line_delimiter", vec["delim"])
        data_format.validate()
        _FORMATS[vec["delim"]] = data_format
    fields = [("f%d" % i, width) for i, width in enumerate(vec["widths"], 1)]
    target = io.StringIO(newline="")
    what = "FixedRowWriter(widths=%s, line delimiter=%s).write_rows(%r)" % (vec["widths"], vec["delim"], rows)
    try:
        writer = rowio.FixedRowWriter(target, _FORMATS[vec["delim"]], fields)
        writer.write_rows(rows)
        text = target.getvalue()
        back = list(rowio.fixed_rows(io.StringIO(text, newline=""), "utf-8", fields, DELIM[vec["delim"]]))
    except Exception as error:  # noqa
        return ["%s fails: %s: %s" % (what, type(error).__name__, error)]
    separator = __import__("os").linesep if vec["delim"] == "any" else (DELIM[vec["delim"]] or "")
    expected_text = "".join("".join(row) + separator for row in rows)
    problems = []
    if text != expected_text:
        problems.append("%s writes %r but must write %r" % (what, text, expected_text))
    if back != rows:
        problems.append("%s: the output %r reads back as %r" % (what, text, back))
    return problems


def through_a_cid(vec):
    """
    What users call: a CID that declares the widths, read with cutplace.rows (nothing validated, so that the rows come back
    as they are cut). Every behaviour builds a CID of its own, as a process does that validates files of several layouts one
    after the other: the layout used is the one of the CID at hand.
    """
    import cutplace
    from cutplace import errors
    expected = vec["parse"]
    cid = cutplace.Cid()
    cid.read("cid", [["D", "Format", "fixed"], ["D", "Line delimiter", vec["delim"]], ["D", "Encoding", "utf-8"]] + [
        ["F", "f%d" % number, "", "", str(width), "Text"] for number, width in enumerate(vec["widths"], 1)])
    what = "cutplace.rows(CID with widths %s and line delimiter %s, %r)" % (vec["widths"], vec["delim"], text_of(vec["input"]))
    try:
        rows = list(cutplace.rows(cid, io.StringIO(text_of(vec["input"]), newline=""), validate_until=0))
    except errors.DataFormatError:
        return [] if expected[0] == "err" else ["%s: well-formed input refused" % what]
    except Exception as error:  # noqa
        return ["%s: neither rows nor a data-format error: %s: %s" % (what, type(error).__name__, error)]
    if expected[0] == "err":
        return ["%s: malformed input was silently read as %s" % (what, rows)]
    want = [[text_of(item) for item in row] for row in expected[1]]
    return [] if rows == want else ["%s: returns %s but the input holds %s" % (what, rows, want)]


class _ForwardOnly(object):
    """A text stream that can only be read (a pipe, a socket, a decompressor): no tell(), no seek()."""

    def __init__(self, text):
        self._stream = io.StringIO(text, newline="")

    def read(self, size=-1):
        return self._stream.read(size)


def forward_only(vec):
    """'For any character stream': the same outcome from a stream that offers nothing but read()."""
    from cutplace import errors, rowio
    expected = vec["parse"]
    fields = [("f%d" % i, width) for i, width in enumerate(vec["widths"], 1)]
    what = "fixed_rows(forward-only stream of %r, widths=%s, line delimiter=%s)" % (text_of(vec["input"]), vec["widths"], vec["delim"])
    try:
        rows = list(rowio.fixed_rows(_ForwardOnly(text_of(vec["input"])), "utf-8", fields, DELIM[vec["delim"]]))
    except errors.DataFormatError:
        return [] if expected[0] == "err" else ["%s: well-formed input refused" % what]
    except Exception as error:  # noqa
        return ["%s: neither rows nor a data-format error: %s: %s" % (what, type(error).__name__, error)]
    if expected[0] == "err":
        return ["%s: malformed input was silently read as %s" % (what, rows)]
    want = [[text_of(item) for item in row] for row in expected[1]]
    return [] if rows == want else ["%s: returns %s but the input holds %s" % (what, rows, want)]


def _job(vec):
    return problems_of(vec, observe(vec)) + written_back(vec) + through_a_cid(vec) + forward_only(vec)


def replay(behaviour, report=None):
    core.import_repo()
    return _job(behaviour)


def replay_all(report, vectors, kind):
    outcomes = core.parallel_map(_job, vectors, chunk=500)
    seen_shapes = {}
    for vec, problems in zip(vectors, outcomes):
        report.replayed += 1
        nontrivial = vec["parse"][0] == "err" or len(vec["parse"][1]) > 1 or any(c in ("CR", "LF") for c in vec["input"])
        report.count((tuple(vec["input"]), tuple(vec["widths"]), vec["delim"]), nontrivial)
        if nontrivial and len(vec["input"]) >= 4:
            report.sample({"kind": kind, "text": text_of(vec["input"]), "widths": vec["widths"], "delimiter": vec["delim"],
                           "expected": vec["parse"][0]}, limit=6)
        for problem in problems:
            shape = (vec["delim"], problem.split(":", 2)[1][:40])
            seen_shapes[shape] = seen_shapes.get(shape, 0) + 1
            if seen_shapes[shape] <= 2:
                report.violation("c13", vec, vec["parse"], None, problem)
            else:
                report.violations.append({"what": problem})


def run(tier, report):
    core.import_repo()
    plans = {"quick": [("quick", None, "exhaustive: all strings <= 5 over {a,b,CR,LF} x 10 width lists x 5 settings"),
                       ("built", None, "all well-formed files of <= 3 records (final delimiter optional)"),
                       ("mutants", 400, "well-formed files with one character deleted / inserted / replaced (simulation)")],
             "thorough": [("len6", None, "exhaustive: all strings <= 6 x all 39 width lists x 5 settings"),
                          ("len7", None, "exhaustive, model only: all strings <= 7 x all 39 width lists x 5 settings"),
                          ("built", None, "all well-formed files of <= 3 records"),
                          ("mutants", 20000, "well-formed files with one mutation (simulation)")]}
    first = None
    for name, simulate, label in plans[tier]:
        result = core.tlc("MCFixedReader", "FixedReader_%s.cfg" % name, simulate=simulate, depth=80, timeout=7000)
        if simulate is None:
            core.require_coverage(result, ACTIONS, "FixedReader/" + name)
        report.add_tlc("FixedReader %s: %s" % (name, label), result)
        vectors = result.by_tag("VEC")
        if simulate is not None:
            unique = {}
            for vec in vectors:
                unique[(tuple(vec["input"]), tuple(vec["widths"]), vec["delim"])] = vec
            vectors = list(unique.values())
        if vectors:
            replay_all(report, vectors, name)
            first = first or vectors
    # self-test: a corrupted prediction must be noticed
    if not report.violations:
        for vec in first:
            if vec["parse"][0] == "ok" and len(vec["parse"][1]) >= 2:
                corrupted = dict(vec)
                corrupted["parse"] = ["ok", vec["parse"][1][:-1]]
                if not _job(corrupted):
                    core.selftest_failed("C13: a prediction with the last row removed was not noticed")
                break
        else:
            core.selftest_failed("C13: no behaviour with two rows")
    report.exhaustive = True
    report.assumptions += ["characters other than CR and LF are represented by 'a' and 'b' (the reader never inspects them)",
                           "the input is an io.StringIO with newline='' (no newline translation before the reader)"]
    return report.finish(rule="one case = (input string, width list, line-delimiter setting) explored by TLC; non-trivial = "
                              "the input holds a line-break character, several records, or is malformed; distinct by that triple")
