"""
C01 -- range descriptions accept exactly the values they describe.

spec/Ranges.tla is explored by TLC (exhaustively for the small constants,
by simulation for the large pool); every behaviour it emits is concretised
into description texts (every separator spelling, every limit spelling the
behaviour asks for) and pushed through cutplace.ranges.Range / DecimalRange.
The oracle is the denotational half of the specification (`den`, `minl`,
`maxl` in the emitted record), which TLC has checked against the operational
half (`acc`, `lo`, `hi`, `items`).
"""
import decimal
import itertools

from harness import core

SEPARATORS = ["...", ":", "…", " ... ", " : ", " … "]
NAMES = {9: "tab", 10: "lf", 11: "vt", 12: "ff", 13: "cr"}


def opt(o):
    return None if o == [] else o[0]


# ---------------------------------------------------------------- concretisation
def spell_limit(n, sp, variant):
    """Text of integer limit n in spelling class sp; variant picks among equivalent spellings."""
    if sp == "name":
        return NAMES[n]
    if sp == "str":
        c = chr(n)
        if 32 < n < 127 and c not in "'\"\\":
            literal = c
        elif c == "'":
            return '"\'"'
        elif c == '"':
            return "'\"'"
        elif c == "\\":
            return "'\\\\'"
        elif n < 256:
            literal = "\\x%02x" % n
        elif n < 65536:
            literal = "\\u%04x" % n if variant % 2 == 0 else c
        else:
            literal = "\\U%08x" % n if variant % 2 == 0 else c
        quote = "'" if variant % 3 != 1 else '"'
        prefix = "u" if variant % 4 == 3 else ""  # the documented (Python 2 style) prefix of unicode strings
        return prefix + quote + literal + quote
    sign = "-" if n < 0 else ""
    if variant % 2 == 1:
        return sign + hex(abs(n))
    return sign + str(abs(n))


def spell_decimal(n, variant):
    """Text of the decimal n/4."""
    value = decimal.Decimal(n) / 4
    text = "%f" % value
    text = text.rstrip("0").rstrip(".") if "." in text else text
    if text in ("-0", ""):
        text = "0"
    if variant % 3 == 1:
        text = text + (".0" if "." not in text else "0")
    elif variant % 3 == 2 and "." not in text:
        text = text + ".00"
    return text


def item_text(item, separator, variant, is_decimal):
    def lim(o, sp, k):
        n = opt(o)
        return spell_decimal(n, variant + k) if is_decimal else spell_limit(n, sp, variant + k)

    form = item["form"]
    if form == "single":
        return lim(item["lo"], item["losp"], 0)
    if form == "range":
        return lim(item["lo"], item["losp"], 0) + separator + lim(item["hi"], item["hisp"], 1)
    if form == "from":
        return lim(item["lo"], item["losp"], 0) + separator
    return separator + lim(item["hi"], item["hisp"], 1)


def texts_for(behaviour, is_decimal, all_separators, rng=None):
    """Description texts that spell the behaviour's abstract syntax tree."""
    ast = behaviour["ast"]
    ranged = [i for i, item in enumerate(ast) if item["form"] != "single"]
    result = []
    if all_separators:
        combos = list(itertools.product(range(len(SEPARATORS)), repeat=len(ranged))) or [()]
        for combo_index, combo in enumerate(combos):
            separators = dict(zip(ranged, combo))
            for variant in ((0, 1) if combo_index == 0 else (combo_index % 6,)):
                joiner = ", " if variant % 2 == 0 else ","
                result.append(joiner.join(
                    item_text(item, SEPARATORS[separators.get(i, 0)], variant, is_decimal) for i, item in enumerate(ast)))
    else:
        for _ in range(3):
            variant = rng.randrange(6)
            joiner = rng.choice([", ", ",", " , "])
            result.append(joiner.join(
                item_text(item, rng.choice(SEPARATORS), variant + i, is_decimal) for i, item in enumerate(ast)))
    return result


# ---------------------------------------------------------------- projection / comparison
def observe(text, probes, is_decimal):
    from cutplace import errors, ranges
    cls = ranges.DecimalRange if is_decimal else ranges.Range
    try:
        range_object = cls(text)
    except errors.InterfaceError as error:
        return {"status": "err", "error": "InterfaceError: %s" % error}
    except Exception as error:  # noqa -- any other type is reported as such
        return {"status": "crash", "error": "%s: %s" % (type(error).__name__, error)}
    accepted = []
    for probe in probes:
        value = (decimal.Decimal(probe) / 4) if is_decimal else probe
        if is_decimal and probe % 2 == 0:
            value = str(value)  # DecimalRange.validate also takes text
        verdicts = []
        for _ in range(2):  # a range is a pure predicate: asking twice in a row must give the same answer
            try:
                range_object.validate("x", value)
                verdicts.append(True)
            except errors.RangeValueError:
                verdicts.append(False)
        if verdicts[0] != verdicts[1]:
            return {"status": "crash", "error": "validate(%r) answers %s first and %s when asked again" % (
                value, "accepted" if verdicts[0] else "rejected", "accepted" if verdicts[1] else "rejected")}
        if verdicts[0]:
            accepted.append(probe)
    scale = 4 if is_decimal else 1

    def back(limit):
        if limit is None:
            return None
        scaled = limit * scale
        return int(scaled) if scaled == int(scaled) else float(scaled)

    return {"status": "ok",
            "items": [[back(lo), back(hi)] for (lo, hi) in (range_object.items or [])],
            "lo": back(range_object.lower_limit), "hi": back(range_object.upper_limit), "acc": accepted}


def compare(behaviour, text, observed):
    """Problems (list of str) of one observation against the specification's denotation."""
    problems = []
    ast = behaviour["ast"]
    if observed["status"] == "crash":
        return ["%r: neither accepted nor refused with an interface error: %s" % (text, observed["error"])]
    if observed["status"] == "err":
        if behaviour["nonoverlapping"]:
            problems.append("%r: well-formed non-overlapping description refused: %s" % (text, observed["error"]))
        return problems
    # accepted: must denote the union of its items (also for overlapping descriptions)
    if sorted(observed["acc"]) != sorted(behaviour["den"]):
        wrong = sorted(set(observed["acc"]) ^ set(behaviour["den"]))
        problems.append("%r: accepts %s but describes %s (differs on %s)" % (
            text, sorted(observed["acc"]), sorted(behaviour["den"]), wrong))
    if observed["lo"] != opt(behaviour["minl"]) or observed["hi"] != opt(behaviour["maxl"]):
        problems.append("%r: overall limits are (%r, %r) but must be (%r, %r)" % (
            text, observed["lo"], observed["hi"], opt(behaviour["minl"]), opt(behaviour["maxl"])))
    expected_items = [[opt(item["lo"]), opt(item["hi"])] for item in ast]
    if observed["items"] != expected_items:
        problems.append("%r: items are %r but must be %r" % (text, observed["items"], expected_items))
    return problems


def probes_of(behaviour, kind):
    if kind == "quick":
        return list(range(-4, 5))
    if kind == "dec":
        return list(range(-10, 11))
    limits = set()
    for item in behaviour["ast"]:
        for key in ("lo", "hi"):
            if item[key]:
                limits.update((item[key][0] - 1, item[key][0], item[key][0] + 1))
    return sorted(limits | set(behaviour["den"]))


def replay(behaviour, report=None, rng=None):
    """Re-run one behaviour (used by --replay and by run); returns the list of problems."""
    kind = behaviour.get("kind", "quick")
    is_decimal = kind == "dec"
    core.import_repo()
    problems = []
    probes = behaviour.get("probes") or probes_of(behaviour, kind)
    texts = behaviour.get("texts") or texts_for(behaviour, is_decimal, kind != "gen", rng)
    for text in texts:
        observed = observe(text, probes, is_decimal)
        if kind == "gen":
            # the generated pool's denotation is given over the pool's probe set; restrict to it
            observed_for_compare = dict(observed)
            if observed["status"] == "ok":
                observed_for_compare["acc"] = [p for p in observed["acc"] if p in set(behaviour["probeset"])]
            found = compare(behaviour, text, observed_for_compare)
        else:
            found = compare(behaviour, text, observed)
        for problem in found:
            problems.append((text, problem, observed))
    behaviour["texts"] = texts
    return problems


def _replay_all(behaviours, report, kind, rng=None):
    first_problem_per_shape = {}
    for behaviour in behaviours:
        behaviour["kind"] = kind
        problems = replay(behaviour, report, rng)
        report.replayed += len(behaviour["texts"])
        key = (kind, core.json.dumps(behaviour["ast"], sort_keys=True))
        report.count(key, nontrivial=any(item["form"] != "single" for item in behaviour["ast"]) or len(behaviour["ast"]) > 1)
        if len(behaviour["ast"]) == 2:
            report.sample({"kind": kind, "texts": behaviour["texts"][:3], "predicted_status": behaviour["status"],
                           "describes": behaviour["den"][:12]}, limit=4 if kind == "quick" else 8)
        for text, problem, observed in problems:
            shape = (kind, observed.get("error", "")[:60] if observed["status"] != "ok" else problem.split(":", 1)[1][:30])
            # one VIOLATION per distinct failure shape is enough to act on; all are counted
            if shape in first_problem_per_shape:
                first_problem_per_shape[shape] += 1
                continue
            first_problem_per_shape[shape] = 1
            stored = dict(behaviour)
            stored["texts"] = [text]
            report.violation("c01", stored, {"status": behaviour["status"], "describes": behaviour["den"],
                                             "limits": [behaviour["minl"], behaviour["maxl"]]}, observed, problem)
    return first_problem_per_shape


def selftest(behaviours):
    """The comparison must be able to fail: corrupt one predicted field and require a report."""
    for behaviour in behaviours:
        if behaviour["status"] == "ok" and behaviour["den"] and behaviour["nonoverlapping"]:
            corrupted = dict(behaviour)
            corrupted["den"] = behaviour["den"][1:]
            corrupted["kind"] = behaviour.get("kind", "quick")
            corrupted.pop("texts", None)
            if not replay(corrupted):
                core.selftest_failed("C01: a corrupted prediction (one accepted value removed) was not noticed")
            corrupted = dict(behaviour)
            corrupted["maxl"] = [99] if behaviour["maxl"] != [99] else [98]
            corrupted.pop("texts", None)
            if not replay(corrupted):
                core.selftest_failed("C01: a corrupted upper limit was not noticed")
            return
    core.selftest_failed("C01: no behaviour suitable for the self-test")


ACTIONS = ["Feed", "Start", "TokValue", "TokHyphen", "TokEllipsis", "EndItem"]


def run(tier, report):
    core.import_repo()
    rng = core.rng(1)
    # 1. exhaustive: all 1-2 item descriptions over {-2..2, none} against -4..4
    result = core.tlc("MCRanges", "Ranges_quick.cfg")
    core.require_coverage(result, ACTIONS, "Ranges")
    report.add_tlc("Ranges exhaustive: 1-2 items, limits -2..2, probes -4..4", result)
    behaviours = result.by_tag("VEC")
    if len(behaviours) != 930:
        raise core.MachineryError("expected 930 exhaustive behaviours, got %d" % len(behaviours))
    shapes = _replay_all(behaviours, report, "quick")
    selftest_source = behaviours
    # 2. decimal twin
    result = core.tlc("MCRanges", "Ranges_dec.cfg")
    core.require_coverage(result, ACTIONS, "Ranges (decimal)")
    report.add_tlc("Ranges exhaustive, decimal reading (n/4): 1-2 items, limits halves -2..2, probes quarters", result)
    shapes.update(_replay_all(result.by_tag("VEC"), report, "dec"))
    # 3. generated: 1-4 items, every spelling of limit and separator
    number = 150 if tier == "quick" else 4000
    result = core.tlc("MCRanges", "Ranges_gen.cfg", simulate=number, depth=40, timeout=3000)
    report.add_tlc("Ranges simulation: 1-4 items, limit pool around spelling/sign boundaries, all spellings", result)
    generated = result.by_tag("VEC")
    probeset = sorted(set(p for b in generated for p in b["den"]) | set(p for b in generated for p in b["acc"]))
    # the limit pool of the generated configuration, read from the model constants (one source of truth)
    import os
    import re
    constants = open(os.path.join(core.SPEC, "MCRanges.tla"), encoding="utf-8").read()
    match = re.search(r"^GLim == \{([^}]*)\}", constants, re.M)
    if match is None:
        raise core.MachineryError("GLim not found in MCRanges.tla")
    pool = sorted(int(item) for item in match.group(1).split(","))
    probeset = sorted(set(x + d for x in pool for d in (-1, 0, 1)))
    seen = set()
    unique = []
    for behaviour in generated:
        key = core.json.dumps(behaviour["ast"], sort_keys=True)
        if key not in seen:
            seen.add(key)
            behaviour["probeset"] = probeset
            behaviour["probes"] = probeset
            unique.append(behaviour)
    shapes.update(_replay_all(unique, report, "gen", rng))
    if tier == "thorough":
        result = core.tlc("MCRanges", "Ranges_three.cfg", timeout=3000)
        report.add_tlc("Ranges exhaustive: 1-3 items, limits -2..2 (model only)", result)
    if not report.violations:
        selftest(selftest_source)
    report.exhaustive = True
    report.assumptions += [
        "the Python tokenizer front end (cutplace._tools) is outside the model: the specification starts at tokens, "
        "the harness owns the spellings",
        "overlapping descriptions: no expectation on acceptance; if accepted they must denote the union",
        "symbolic names are spelled in lower case only; a minus sign is generated for numbers only",
    ]
    report.notes["failure_shapes"] = {str(k): v for k, v in shapes.items()}
    return report.finish(rule="one case = one abstract description (sequence of items with limit spellings) emitted by TLC, "
                              "replayed in every separator spelling; non-trivial = has a ranged item or several items; "
                              "distinct by abstract syntax tree and number reading (integer / decimal / generated pool)")
