"""
Core of the verification harness: TLC runner, behaviour parser, evidence
writer, known-findings logic, violation/replay bookkeeping.

Everything a per-property module (c01.py ...) needs that is not specific to
one specification module lives here.

Exit codes used by ./check:  0 = property held on everything explored,
1 = VIOLATION (a line "VIOLATION property=<id> replay=<path>" is printed),
2 = machinery failure (TLC crash, vacuous action, model/library disagreement
that is not attributable to /repo, self-test of the binding failed).
"""
import json
import os
import random
import re
import shutil
import subprocess
import sys
import time

VERIF = os.path.dirname(os.path.dirname(os.path.abspath(__file__)))
SPEC = os.path.join(VERIF, "spec")
WORK = os.path.join(VERIF, "work")
# (VERIF_EVIDENCE_DIR: only for trying seeded changes, so that such runs do not overwrite the evidence of the real tree)
EVIDENCE = os.environ.get("VERIF_EVIDENCE_DIR") or os.path.join(VERIF, "evidence")
REPO = os.environ.get("VERIF_REPO", "/repo")
TLA_CP = "/opt/veriftools/tla/tla2tools.jar:/opt/veriftools/tla/CommunityModules-deps.jar"
KNOWN_FINDINGS_PATH = os.path.join(VERIF, "known_findings.json")

GUARD = "CUTPLACE_VERIF"


class MachineryError(Exception):
    """The framework itself failed (exit 2); nothing is claimed about /repo."""


def seed():
    try:
        return int(os.environ.get("VERIF_SEED", "0"))
    except ValueError:
        return 0


def rng(extra=0):
    return random.Random(seed() * 1000003 + extra)


def workdir(tag):
    path = os.path.join(WORK, "%s-%d" % (tag, os.getpid()))
    shutil.rmtree(path, ignore_errors=True)
    os.makedirs(path)
    return path


def cleanup(path):
    shutil.rmtree(path, ignore_errors=True)


# --------------------------------------------------------------------------
# TLC
# --------------------------------------------------------------------------
class TlcResult(object):
    def __init__(self):
        self.ok = False
        self.generated = 0
        self.distinct = 0
        self.depth = 0
        self.output = ""
        self.vectors = []  # parsed PrintT(<<"TAG", json>>) lines: (tag, object)
        self.coverage = {}  # action name -> (distinct, total)
        self.error = None  # first "Error:" line
        self.violated = None  # name of violated invariant / property
        self.wall = 0.0
        self.cmd = ""

    def by_tag(self, tag):
        return [obj for (t, obj) in self.vectors if t == tag]


_VEC_RE = re.compile(r'^<<"([A-Z_]+)", "(.*)">>$')
_COV_RE = re.compile(r"^<(\w+) line \d+, col \d+ to line \d+, col \d+ of module (\w+)>: (\d+):(\d+)")
_STATES_RE = re.compile(r"^(\d+) states generated, (\d+) distinct states found")
_SIM_STATES_RE = re.compile(r"The number of states generated: (\d+)")
_DEPTH_RE = re.compile(r"The depth of the complete state graph search is (\d+)")


def _untla(text):
    """Undo TLC's string escaping of a PrintT'ed string value."""
    out = []
    i = 0
    n = len(text)
    while i < n:
        c = text[i]
        if c == "\\" and i + 1 < n:
            d = text[i + 1]
            if d == "n":
                out.append("\n")
            elif d == "t":
                out.append("\t")
            elif d == "r":
                out.append("\r")
            elif d == "f":
                out.append("\f")
            else:
                out.append(d)
            i += 2
        else:
            out.append(c)
            i += 1
    return "".join(out)


def tlc(module, cfg, workers=16, simulate=None, depth=None, tlc_seed=None, timeout=3600, env=None,
        coverage=True, expect_violation=False, tag=None, deadlock=None, extra_args=None, keep_output=False,
        dfs=False, share=False):
    """
    Run TLC on spec/<module>.tla with configuration spec/<cfg>.

    share: the values of the emitted vectors that are equal become one object (millions of vectors over a few thousand
    tables and configurations then fit into memory); the caller must not change them in place.

    simulate: None for exhaustive model checking, else the "num" of behaviours for -simulate.
    Returns a TlcResult. Raises MachineryError on a TLC crash / parse error /
    unexpected outcome (a violated invariant is unexpected unless expect_violation).
    """
    result = TlcResult()
    wd = workdir(tag or ("tlc-" + os.path.basename(module)))
    module_path = module if os.path.isabs(module) else os.path.join(SPEC, module + ".tla")
    cfg_path = os.path.join(SPEC, cfg) if not os.path.isabs(cfg) else cfg
    # (TLC makes a directory "tlc-<number>" in java.io.tmpdir for every run and leaves it there: keep it inside the
    # work directory of the run, which is removed afterwards)
    java = ["java", "-XX:+UseParallelGC", "-Xmx24g", "-DTLA-Library=" + SPEC, "-Djava.io.tmpdir=" + wd]
    if dfs:
        java.append("-Dtlc2.tool.queue.IStateQueue=StateDeque")
    cmd = java + ["-cp", TLA_CP, "tlc2.TLC", "-workers", str(workers), "-metadir", os.path.join(wd, "meta"),
                  "-noGenerateSpecTE", "-config", cfg_path]
    if coverage and simulate is None:
        cmd += ["-coverage", "1"]
    if simulate is not None:
        sim = "num=%d" % simulate
        cmd += ["-simulate", sim]
        if depth is not None:
            cmd += ["-depth", str(depth)]
        cmd += ["-seed", str(tlc_seed if tlc_seed is not None else seed() + 1)]
    if deadlock is True:
        pass
    if extra_args:
        cmd += list(extra_args)
    cmd.append(module_path)
    full_env = dict(os.environ)
    if env:
        full_env.update(env)
    result.cmd = " ".join(cmd)
    started = time.time()
    try:
        process = subprocess.run(cmd, cwd=os.path.dirname(module_path), env=full_env, stdout=subprocess.PIPE, stderr=subprocess.STDOUT,
                                 timeout=timeout, universal_newlines=True, errors="replace")
        output = process.stdout
        returncode = process.returncode
    except subprocess.TimeoutExpired as error:
        cleanup(wd)
        raise MachineryError("TLC timed out after %ds: %s" % (timeout, result.cmd)) from error
    result.wall = time.time() - started
    cleanup(wd)
    # TLC drops trace-explorer leftovers next to the module only with -generateSpecTE; nothing to remove.
    sim_generated = 0
    other_lines = []
    shared = {}

    def shared_value(value):
        if isinstance(value, (list, dict)):
            key = json.dumps(value, sort_keys=True)
            return shared.setdefault(key, value)
        return value

    import io
    for line in io.StringIO(output):
        line = line.rstrip("\r\n")
        match = _VEC_RE.match(line)
        if match:
            try:
                vector = json.loads(_untla(match.group(2)))
            except ValueError as error:
                raise MachineryError("cannot parse TLC vector line: %r (%s)" % (line[:200], error))
            if share and isinstance(vector, dict):
                vector = {sys.intern(key): shared_value(value) for key, value in vector.items()}
            result.vectors.append((match.group(1), vector))
            continue
        other_lines.append(line)
        match = _COV_RE.match(line)
        if match:
            name = match.group(1)
            old = result.coverage.get(name, (0, 0))
            result.coverage[name] = (old[0] + int(match.group(3)), old[1] + int(match.group(4)))
            continue
        match = _STATES_RE.match(line)
        if match:
            result.generated = int(match.group(1))
            result.distinct = int(match.group(2))
            continue
        match = _SIM_STATES_RE.search(line)
        if match:
            sim_generated = int(match.group(1))
            continue
        match = _DEPTH_RE.search(line)
        if match:
            result.depth = int(match.group(1))
            continue
        if line.startswith("Error:") and result.error is None:
            result.error = line
            violated = re.search(r"Invariant (\w+) is violated|property (\w+) is violated|Action property (\w+)", line)
            if violated:
                result.violated = [g for g in violated.groups() if g][0]
    if simulate is not None and result.generated == 0:
        result.generated = sim_generated
        result.distinct = sim_generated
    result.output = "\n".join(other_lines) if not keep_output else output
    finished = ("Model checking completed. No error has been found." in output) or (
        simulate is not None and result.error is None and returncode == 0)
    result.ok = finished and result.error is None
    if not result.ok and not (expect_violation and result.violated):
        first = next((i for i, text in enumerate(other_lines) if text.startswith("Error:")), max(0, len(other_lines) - 30))
        tail = "\n".join(other_lines[first:first + 90])
        raise MachineryError("TLC did not finish cleanly on %s/%s (rc=%s): %s\n%s" % (
            module, cfg, returncode, result.error, tail))
    if os.environ.get("VERIF_AUDIT") and os.sep not in cfg and tag is None:
        _audit_dimensions(module, cfg, result)
    return result


def _audit_dimensions(module, cfg, result):
    """
    VERIF_AUDIT=<folder>: for every TLC run write which values each scalar field of the emitted behaviours took (nested records
    and the items of short sequences included). A dimension of the model constants that never shows up here was never
    explored -- the vacuity `FieldDateTime.tla` once had (DESIGN.md section 12, correction 22). Read by tools/vacuity_audit.py.
    """
    seen = {}

    def visit(path, value, depth):
        if isinstance(value, (str, int, bool)) or value is None:
            values = seen.setdefault(path, set())
            if len(values) < 60:
                values.add(json.dumps(value))
        elif isinstance(value, dict) and depth < 4:
            for key, item in value.items():
                visit(path + "." + str(key), item, depth + 1)
        elif isinstance(value, list) and depth < 4:
            values = seen.setdefault(path + ".#len", set())
            if len(values) < 60:
                values.add(json.dumps(len(value)))
            for item in value[:12]:
                visit(path + "[]", item, depth + 1)

    for tag_name, obj in result.vectors:
        visit(tag_name, obj, 0)
    folder = os.environ["VERIF_AUDIT"]
    os.makedirs(folder, exist_ok=True)
    with open(os.path.join(folder, "%s__%s.json" % (module, cfg.replace(".cfg", ""))), "w") as target:
        json.dump({path: sorted(values) for path, values in sorted(seen.items())}, target, indent=1)


def apalache_inductive(module, init, inv, cinit="ConstInit", timeout=600):
    r"""
    Discharge an inductive invariant with Apalache: (init => inv) at length 0 and (inv as initial predicate /\ Next => inv')
    at length 1. Returns a dict for the evidence notes; raises MachineryError when Apalache finds a counterexample (the
    argument is about the model) or cannot be run.
    """
    out = workdir("apalache")
    steps = []
    try:
        for what, arguments in (("base: Init => %s" % inv, ["--init=Init", "--inv=%s" % inv, "--length=0"]),
                                ("step: %s /\\ Next => %s'" % (inv, inv), ["--init=%s" % init, "--inv=%s" % inv, "--length=1"])):
            started = time.time()
            command = ["apalache-mc", "check", "--cinit=%s" % cinit, "--out-dir=%s" % out] + arguments + [module]
            try:
                done = subprocess.run(command, cwd=SPEC, stdout=subprocess.PIPE, stderr=subprocess.STDOUT, universal_newlines=True,
                                      timeout=timeout)
            except (OSError, subprocess.TimeoutExpired) as error:
                raise MachineryError("apalache-mc could not be run for %s: %s" % (module, error))
            if "The outcome is: NoError" not in done.stdout:
                raise MachineryError("apalache-mc %s on %s: %s" % (" ".join(arguments), module, done.stdout[-800:]))
            steps.append({"obligation": what, "outcome": "NoError", "wall_s": round(time.time() - started, 1)})
    finally:
        cleanup(out)
        try:
            os.rmdir(os.path.join(SPEC, "tmp"))  # left behind (empty) by apalache-mc
        except OSError:
            pass
    return {"tool": "apalache-mc 0.58", "module": module, "inductive_invariant": inv, "obligations": steps}


def tlaps_proof(module, timeout=900):
    """
    Check a TLAPS proof module with tlapm (all back ends; fingerprints and temporary files go to a scratch directory).
    Returns a dict for the evidence notes; raises MachineryError unless every obligation is proved.
    """
    out = workdir("tlapm")
    started = time.time()
    try:
        command = ["tlapm", "--cleanfp", "--cache-dir", out, "-I", SPEC, os.path.join(SPEC, module)]
        try:
            done = subprocess.run(command, cwd=SPEC, stdout=subprocess.PIPE, stderr=subprocess.STDOUT, universal_newlines=True,
                                  timeout=timeout)
        except (OSError, subprocess.TimeoutExpired) as error:
            raise MachineryError("tlapm could not be run for %s: %s" % (module, error))
        match = re.search(r"All (\d+) obligations? proved", done.stdout)
        if done.returncode != 0 or not match:
            raise MachineryError("tlapm %s: not every obligation is proved: %s" % (module, done.stdout[-800:]))
    finally:
        cleanup(out)
    return {"tool": "tlapm 1.6.0-pre", "module": module, "obligations_proved": int(match.group(1)),
            "wall_s": round(time.time() - started, 1)}


def read_independently(make_reader):
    """
    list(make_reader()), read a second time while (a) a reader abandoned after its first item is still alive and (b) a
    further reader is advanced in lockstep: every call of a row reader is its own copy of the machine, so the second
    reading must equal the first. Returns (rows, rows of the disturbed reading or None when there is nothing to disturb).
    """
    rows = list(make_reader())
    if len(rows) < 2:
        return rows, None
    abandoned = make_reader()
    next(abandoned)
    first, second = make_reader(), make_reader()
    disturbed = []
    for row in first:
        disturbed.append(row)
        next(second, None)
    del abandoned
    return rows, disturbed


def require_coverage(result, actions, module=None):
    """Vacuity guard: every named action must have been taken at least once."""
    missing = [a for a in actions if result.coverage.get(a, (0, 0))[1] == 0]
    if missing:
        raise MachineryError("vacuity guard: action(s) never taken in %s: %s" % (module or "model", ", ".join(missing)))


def sany(module):
    # (proof modules extend TLAPS.tla, which comes with tlapm)
    library = SPEC + os.pathsep + "/opt/veriftools/tlapm/lib/tlapm/stdlib"
    cmd = ["java", "-DTLA-Library=" + library, "-cp", TLA_CP, "tla2sany.SANY", os.path.join(SPEC, module + ".tla")]
    process = subprocess.run(cmd, cwd=SPEC, stdout=subprocess.PIPE, stderr=subprocess.STDOUT, universal_newlines=True)
    ok = process.returncode == 0 and "Semantic errors" not in process.stdout and "***Parse Error***" not in process.stdout \
        and "Fatal errors" not in process.stdout and "Could not" not in process.stdout
    return ok, process.stdout


# --------------------------------------------------------------------------
# repo access
# --------------------------------------------------------------------------
def import_repo():
    """Make `import cutplace` resolve to /repo's working tree (nothing cached between runs)."""
    if REPO not in sys.path:
        sys.path.insert(0, REPO)
    import warnings
    warnings.filterwarnings("ignore")
    import logging
    logging.getLogger("cutplace").setLevel(logging.CRITICAL)
    logging.disable(logging.CRITICAL)  # the command line front end resets the logger's level
    import cutplace  # noqa: F401
    actual = os.path.dirname(os.path.dirname(os.path.abspath(cutplace.__file__)))
    if os.path.realpath(actual) != os.path.realpath(REPO):
        raise MachineryError("cutplace imported from %s instead of %s" % (actual, REPO))
    return cutplace


# --------------------------------------------------------------------------
# violations, known findings, evidence
# --------------------------------------------------------------------------
class Report(object):
    """Collects what one run of one property check did."""

    def __init__(self, property_id, tier):
        self.property_id = property_id
        self.tier = tier
        self.started = time.time()
        self.states = 0
        self.transitions = 0
        self.replayed = 0
        self.traces_validated = 0
        self.evaluations = 0
        self.distinct = set()
        self.distinct_count = 0
        self.samples = []
        self.violations = []  # dicts
        self.known_met = {}  # finding id -> count
        self.assumptions = []
        self.notes = {}
        self.tlc_runs = []
        self.exhaustive = False
        self._findings = load_known_findings()
        self._replay_dir = os.path.join(WORK, "replay")

    # -- TLC accounting
    def add_tlc(self, name, result):
        self.states += result.distinct
        self.transitions += result.generated
        self.tlc_runs.append({"run": name, "distinct_states": result.distinct, "states_generated": result.generated,
                              "depth": result.depth, "wall_s": round(result.wall, 2),
                              "actions_covered": {k: v[1] for k, v in sorted(result.coverage.items())}})

    def sample(self, item, limit=6):
        if len(self.samples) < limit:
            self.samples.append(item)

    def count(self, key=None, nontrivial=True):
        self.evaluations += 1
        if key is not None and nontrivial:
            if len(self.distinct) < 2000000:
                self.distinct.add(key)

    # -- violations
    def violation(self, module, behaviour, predicted, observed, what, signature=None):
        """
        Record a disagreement between prediction and observation. If `signature`
        matches an open known finding of this property it is counted as met,
        otherwise it is a VIOLATION.
        """
        finding = self._match_finding(signature, what)
        if finding is not None:
            self.known_met[finding["id"]] = self.known_met.get(finding["id"], 0) + 1
            return False
        if len(self.violations) < 8:
            os.makedirs(self._replay_dir, exist_ok=True)
            path = os.path.join(self._replay_dir, "%s-%d-%d.json" % (self.property_id, os.getpid(), len(self.violations)))
            with open(path, "w", encoding="utf-8") as replay_file:
                json.dump({"property": self.property_id, "module": module, "behaviour": behaviour,
                           "predicted": predicted, "observed": observed, "what": what, "signature": signature},
                          replay_file, indent=1, default=repr)
            print("VIOLATION property=%s replay=%s" % (self.property_id, path))
            print("  what: %s" % what)
            sys.stdout.flush()
            self.violations.append({"what": what, "replay": path})
        else:
            self.violations.append({"what": what})
        return True

    def _match_finding(self, signature, what):
        if signature is None:
            return None
        for finding in self._findings:
            if finding.get("status") != "open" or finding.get("property") != self.property_id:
                continue
            if finding.get("signature") == signature:
                return finding
        return None

    # -- finishing
    def finish(self, level="model_checking", rule="", extra=None):
        wall = time.time() - self.started
        if self.violations and not any("replay" in v for v in self.violations):
            # every counted violation was a repetition of a shape whose first instance was not printed: print one now
            first = self.violations[0]
            self.violations = []
            self.violation(self.property_id.lower(), {"summary": first.get("what")}, None, None, first.get("what", "violation"))
        for finding in self._findings:
            if finding.get("status") == "open" and finding.get("property") == self.property_id \
                    and finding["id"] in self.known_met:
                print("KNOWN-FINDING: property=%s %s (%s; met %d time(s) in this run)" % (
                    self.property_id, finding["what"], finding["id"], self.known_met[finding["id"]]))
        distinct_count = max(len(self.distinct), self.distinct_count)
        coverage = {
            "states": self.states,
            "transitions": self.transitions,
            "traces_validated_against_impl": self.replayed + self.traces_validated,
            "behaviours_replayed_into_code": self.replayed,
            "recorded_traces_validated_by_tlc": self.traces_validated,
            "samples": self.samples if self.samples else ["(none)"],
            "evaluations": max(self.evaluations, self.replayed + self.traces_validated),
            "distinct_nontrivial": distinct_count,
            "rule": rule,
            "exhaustive": self.exhaustive,
            "tlc_runs": self.tlc_runs,
            "known_findings_met": self.known_met,
        }
        if extra:
            coverage.update(extra)
        coverage.update(self.notes)
        evidence = {
            "property_id": self.property_id,
            "tier": self.tier,
            "seed": seed(),
            "level": level,
            "coverage": coverage,
            "assumptions": self.assumptions,
            "wall_s": round(wall, 2),
            "violations": len(self.violations),
        }
        os.makedirs(EVIDENCE, exist_ok=True)
        with open(os.path.join(EVIDENCE, self.property_id + ".json"), "w", encoding="utf-8") as evidence_file:
            json.dump(evidence, evidence_file, indent=1, sort_keys=True, default=repr)
            evidence_file.write("\n")
        print("%s %s: states=%d transitions=%d replayed=%d traces=%d violations=%d known=%s wall=%.1fs" % (
            self.property_id, self.tier, self.states, self.transitions, self.replayed, self.traces_validated,
            len(self.violations), dict(self.known_met), wall))
        return 1 if self.violations else 0


def load_known_findings():
    try:
        with open(KNOWN_FINDINGS_PATH, encoding="utf-8") as findings_file:
            return json.load(findings_file).get("findings", [])
    except FileNotFoundError:
        return []


def selftest_failed(what):
    raise MachineryError("self-test of the binding failed: " + what)


def chunks(items, n):
    for i in range(0, len(items), n):
        yield items[i:i + n]


def parallel_map(function, items, processes=16, chunk=200):
    """Map `function` over items in forked worker processes (function must be top-level picklable)."""
    import multiprocessing
    if len(items) < 2 * chunk or processes <= 1:
        return [function(item) for item in items]
    context = multiprocessing.get_context("fork")
    with context.Pool(processes) as pool:
        return pool.map(function, items, chunksize=chunk)
