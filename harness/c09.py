"""
C09 -- CIDs are accepted iff structurally sound; rejections name the offending row.

spec/CidLoad.tla: TLC explores base CIDs (4 formats x 1..3 fields x 0..2 checks)
with no defect or exactly one defect of the catalogue at every applicable row,
under every subset of the row-level meaning-preserving rewrites, and checks
AcceptedIffSound / RejectionNamesTheRow / KeepsOrder. Every behaviour is
replayed through Cid.read (and, for a sample, create_cid_from_string) with the
concrete cells of the catalogue, in two further decorations (marker case and
blanks, trailing cells).
"""
import csv
import io

from harness import core

NAMES = {1: "customer_id", 2: "surname", 3: "color", 4: "date_of_birth", 5: "code", 6: "amount", 9: "extra"}
TYPES = {1: "Integer", 2: "Text", 3: "Choice", 4: "DateTime", 5: "Pattern", 6: "Decimal", 9: "Text"}


def rotated(ident, shift):
    """Which base field stands for abstract field `ident`: the extra spellings rotate the six types through the ids."""
    return ((ident - 1 + shift) % 6) + 1 if ident <= 6 else ident


def f_row(fmt, ident, tag, shift=0):
    fixed = fmt == "fixed"
    ident = rotated(ident, shift)
    # every base field carries an example that its own field accepts
    base = {
        1: [NAMES[1], "123", "", "3" if fixed else "1...3", "Integer", "0...999"],
        2: [NAMES[2], "Smith", "X", "5" if fixed else "", "Text", ""],
        3: [NAMES[3], "red", "", "5" if fixed else "", "Choice", "red, green, blue, 1.0"],
        4: [NAMES[4], "2020-02-29", "X", "10" if fixed else "", "DateTime", "YYYY-MM-DD"],
        5: [NAMES[5], "abc", "", "4" if fixed else "...4", "Pattern", "a*"],
        6: [NAMES[6], "12.5", "X", "6" if fixed else "", "Decimal", "0...999.99"],
        9: [NAMES[9], "ab", "", "2" if fixed else "", "Text", ""],
    }[ident]
    name, example, mark, length, type_name, rule = base
    if tag == "kw":
        name = "class"
    elif tag == "digit":
        name = "1abc"
    elif tag == "blank":
        name = "a b"
    elif tag == "nonascii":
        name = "näme"
    elif tag == "emptyname":
        name = ""
    elif tag == "badmark":
        mark = "Y"
    elif tag == "unknowntype":
        type_name = "Bogus"
    elif tag == "nottype":
        type_name = "3Integer"
    elif tag == "badlength":
        length = "a...b"
    elif tag == "lengthorder":
        length = "5...2"
    elif tag == "neglength":
        length = "-3...-1"
    elif tag == "fixed:nolength":
        length = ""
    elif tag == "fixed:range":
        length = "2...3"
    elif tag == "fixed:zero":
        length = "0"
    elif tag == "intrule":
        type_name, rule, length = "Integer", "abc...xyz", ("3" if fixed else "")
    elif tag == "intlength":
        type_name, rule, length, mark = "Integer", "10...99", "1", ""
    elif tag == "choicecomma":
        type_name, rule, length = "Choice", "a,b,", ("1" if fixed else "")
    elif tag == "choiceempty":
        type_name, rule, mark, length = "Choice", "", "", ("1" if fixed else "")
    elif tag == "constx":
        type_name, rule, mark, length = "Constant", "a", "X", ("1" if fixed else "")
    elif tag == "regex":
        type_name, rule, length = "RegEx", "(", ("1" if fixed else "")
    elif tag == "lengthlate":
        length = "1...3, 2...5"      # (the second part overlaps the first one)
    elif tag == "rulelate":
        type_name, rule, length, mark = "Integer", "0...150, none", ("3" if fixed else ""), ""
    elif tag == "example":
        type_name, rule, length, example, mark = "Integer", "0...999", ("3" if fixed else ""), "abc", ""
    elif tag == "examplelength":
        type_name, rule, length, example, mark = "Text", "", ("2" if fixed else "1...2"), "12345", ""
    elif tag != "none":
        raise core.MachineryError("F tag %r" % tag)
    return ["F", name, example, mark, length, type_name, rule]


def c_row(ident, tag, shift=0):
    first = NAMES[rotated(1, shift)]  # the checks speak about the field declared first
    base = {1: ["customer must be unique", "IsUnique", first],
            2: ["not too many customers", "DistinctCount", first + " < 100"],
            3: ["some customers", "DistinctCount", first + " >= 0"],
            9: ["early check", "IsUnique", first]}[ident]
    desc, type_name, rule = base
    if tag == "emptydesc":
        desc = ""
    elif tag == "unknowntype":
        type_name = "Bogus"
    elif tag == "emptytype":
        type_name = ""
    elif tag == "desconly":
        type_name, rule = "", ""
    elif tag == "u:undeclared":
        type_name, rule = "IsUnique", "nosuchfield"
    elif tag == "u:empty":
        type_name, rule = "IsUnique", ""
    elif tag == "u:dup":
        type_name, rule = "IsUnique", first + ", " + first
    elif tag == "u:comma":
        type_name, rule = "IsUnique", first + " " + first
    elif tag == "d:undeclared":
        type_name, rule = "DistinctCount", "nosuch < 3"
    elif tag == "d:notbool":
        type_name, rule = "DistinctCount", first + " + 3"
    elif tag == "d:syntax":
        type_name, rule = "DistinctCount", first + " <<< 3"
    elif tag != "none":
        raise core.MachineryError("C tag %r" % tag)
    return ["C", desc, type_name, rule]


def d_row(fmt, row):
    tag = row["tag"]
    if tag == "format":
        return ["D", "Format", "nosuchformat" if row["val"] == "unknownfmt" else row["val"]]
    if tag == "good":
        return ["D", "Allowed characters", "32..."]
    if tag == "narrow":
        return ["D", "Allowed characters", "200...210"]  # none of the examples of the base fields is written in these
    if tag == "inapplicable":
        return {"delimited": ["D", "Sheet", "1"], "fixed": ["D", "Item delimiter", ";"]}.get(fmt, ["D", "Line delimiter", "lf"])
    if tag == "unknown":
        return ["D", "No such property", "x"]
    if tag == "emptyname":
        return ["D", "", "x"]
    if tag == "badvalue":
        return ["D", "Header", "-1"]
    if tag == "contra":
        return ["D", "Item delimiter", '"'] if fmt == "delimited" else ["D", "Thousands separator", "."]
    raise core.MachineryError("D tag %r" % tag)


# cells whose surrounding blanks are content, not decoration, in the code as it is (established by running the variant on the
# unchanged tree: data-format name and value, a field's example, everything in a check row); the loader strips the others
SHIFT = {0: 0, 1: 0, 2: 0, 3: 3, 4: 3}  # spelling variant -> rotation of the field types
UNPADDED = {"D": (1, 2), "F": (2,), "C": (1, 2, 3)}


def concrete_rows(vec, variant):
    fmt = None
    for row in vec["rows"]:
        if row["k"] == "D" and row["tag"] == "format" and row["val"] != "unknownfmt":
            fmt = row["val"]
            break
    fmt = fmt or "delimited"
    result = []
    for row in vec["rows"]:
        kind = row["k"]
        if kind == "D":
            cells = d_row(fmt, row)
        elif kind == "F":
            cells = f_row(fmt, row["id"], row["tag"], SHIFT[variant])
        elif kind == "C":
            cells = c_row(row["id"], row["tag"], SHIFT[variant])
        elif kind == "comment":
            cells = ["", "Interface: customers", "a comment"]
        elif kind == "blank":
            cells = []
        else:
            cells = ["X", "what is this"]
        if cells and variant == 1 and kind in ("D", "F", "C"):
            cells = [" %s " % cells[0].lower()] + cells[1:]  # markers are case-insensitive, surrounding blanks do not matter
        if cells and variant == 2 and kind in ("D", "F", "C"):
            width = {"D": 3, "F": 7, "C": 4}[kind]
            cells = cells + [""] * (width - len(cells)) + ["", "trailing note", "ignored"]  # cells beyond the parsed columns
        if cells and variant == 4 and kind in ("D", "F", "C"):
            # blanks around the contents of a cell do not matter
            cells = [(" %s " % cell) if (cell != "" and index not in UNPADDED.get(kind, ())) else cell for index, cell in enumerate(cells)]
        if cells and variant == 3 and kind in ("D", "F", "C"):
            # cells beyond the parsed columns (7 per row) that would make sense if they were read
            cells = cells + [""] * (7 - len(cells)) + {"D": ["Format", fmt], "F": ["Integer", "0...9"],
                                                       "C": ["IsUnique", NAMES[rotated(1, SHIFT[variant])]]}[kind]
        result.append(cells)
    return fmt, result


def load(rows, as_text):
    import cutplace
    from cutplace import errors, interface
    try:
        if as_text:
            stream = io.StringIO(newline="")
            csv.writer(stream).writerows(rows)
            cid = interface.create_cid_from_string(stream.getvalue())
        else:
            cid = cutplace.Cid()
            cid.read("cid", rows)
    except errors.InterfaceError as error:
        text = str(error)
        if hasattr(error.location, "line"):
            line = error.location.line + 1
        else:
            # no location object: the property asks for the TEXT to name the row
            import re
            match = re.search(r"\(R(\d+)C\d+\)", text)
            line = int(match.group(1)) if match else 0
        return {"status": "rejected", "row": line, "text": text}
    except Exception as error:  # noqa
        return {"status": "crash", "text": "%s: %s" % (type(error).__name__, error)}
    return {"status": "accepted", "fields": list(cid.field_names), "types": [type(f).__name__ for f in cid.field_formats],
            "checks": list(cid.check_names), "format": cid.data_format.format}


def _job(vec):
    problems = []
    for variant in range(5):
        fmt, rows = concrete_rows(vec, variant)
        for as_text in ((False, True) if variant == 0 and not any(r == [] for r in rows) else (False,)):
            observed = load(rows, as_text)
            what = "%s CID with %s (%s%s)" % (fmt, vec["label"], ["plain", "lower-case markers with blanks", "trailing cells", "plausible cells beyond column 7",
                                                "blanks around every cell"][variant],
                                               ", from text" if as_text else "")
            if observed["status"] == "crash":
                problems.append("%s: neither accepted nor refused with an interface error: %s; rows %r" % (what, observed["text"], rows))
            elif observed["status"] != vec["status"]:
                problems.append("%s: is %s but must be %s; rows %r%s" % (what, observed["status"], vec["status"], rows,
                                                                          "; " + observed.get("text", "") if observed.get("text") else ""))
            elif observed["status"] == "rejected":
                if vec["errRow"] and observed["row"] != vec["errRow"]:
                    problems.append("%s: the rejection names row %d (%s) but the offending row is %d; rows %r" % (
                        what, observed["row"], observed["text"][:80], vec["errRow"], rows))
            else:
                want_fields = [NAMES[rotated(i, SHIFT[variant])] for i in vec["fields"]]
                want_types = [TYPES[rotated(i, SHIFT[variant])] + "FieldFormat" for i in vec["fields"]]
                want_checks = [c_row(i, "none")[1] for i in vec["checks"]]  # (descriptions do not depend on the rotation)
                if observed["fields"] != want_fields or observed["types"] != want_types:
                    problems.append("%s: fields are %s %s but %s %s were declared" % (what, observed["fields"], observed["types"],
                                                                                      want_fields, want_types))
                if observed["checks"] != want_checks:
                    problems.append("%s: checks are %s but %s were declared" % (what, observed["checks"], want_checks))
                if observed["format"] != fmt:
                    problems.append("%s: data format is %s" % (what, observed["format"]))
    return problems


def cid_load_traces(report, vectors, tier):
    """
    code -> spec: Cid.read calls recorded through the hooks (a sample of the generated CIDs, and every CID the
    repository's own test-suite loads) are validated against CidLoadTrace.tla.
    """
    import copy
    import os
    import subprocess
    from harness import tracelib
    rng = core.rng(9)
    folder = core.workdir("c09trace")
    try:
        path = os.path.join(folder, "generated.ndjson")
        tracelib.enable_hooks(path)
        try:
            ordered = sorted(vectors, key=core.json.dumps)
            for vec in rng.sample(ordered, min(len(ordered), 500 if tier == "quick" else 5000)):
                load(concrete_rows(vec, 0)[1], False)
        finally:
            tracelib.disable_hooks()
        sources = [("sample of the generated CIDs loaded with the hooks on", path)]
        suite = os.path.join(folder, "suite.ndjson")
        env = dict(os.environ)
        env[core.GUARD] = "1"
        env["CUTPLACE_VERIF_TRACE"] = suite
        files = [name for name in ("tests/test_interface.py", "tests/test_validio.py", "tests/test_applications.py", "tests/test_sql.py")
                 if os.path.exists(os.path.join(core.REPO, name))]
        subprocess.run(["/venv/bin/python", "-m", "pytest", "-q", "-p", "no:cacheprovider", "--timeout=600"] + files, cwd=core.REPO,
                       env=env, stdout=subprocess.PIPE, stderr=subprocess.STDOUT)
        if os.path.exists(suite):
            sources.append(("repository test-suite with the guard on (%s)" % ", ".join(files), suite))
        for label, trace_path in sources:
            accepted, rejected = tracelib.validate_cid_loads(report, trace_path, label)
            report.traces_validated += accepted + len(rejected)
            report.notes.setdefault("trace_sources", []).append({"source": label, "accepted": accepted, "rejected": len(rejected)})
            for item in rejected[:3]:
                report.violation("c09", {"kind": "cidtrace", "trace": item["trace"]}, "a behaviour of CidLoad.tla", item["no_action_explains"],
                                 "recorded Cid.read (%s) is not a behaviour of the specification: after %d of %d events no action "
                                 "explains %s" % (label, item["matched_prefix"], item["events"], core.json.dumps(item["no_action_explains"])[:300]))
        # binding demonstration: claim that the refused row of a rejected CID was processed to its end, and drop one row
        traces = tracelib.transcribe_cid_loads(tracelib.load_events(path, cid_loading=True))
        victims = [t for t in traces if t["events"] and not t["done"] and t["events"][-1]["ev"] == "row" and not t["events"][-1]["ended"]
                   and t["events"][-1]["k"] == "junk"][:1]
        victims += [t for t in traces if t["done"] and len(t["events"]) > 4][:1]
        if len(victims) == 2:
            corrupted = copy.deepcopy(victims)
            corrupted[0]["events"][-1]["ended"] = True
            del corrupted[1]["events"][1]
            corrupted_path = os.path.join(folder, "corrupted.json")
            scratch = core.Report("C09", tier)
            original = tracelib.transcribe_cid_loads
            tracelib.transcribe_cid_loads = lambda events: corrupted
            try:
                accepted, rejected = tracelib.validate_cid_loads(scratch, path, "binding demonstration")
            finally:
                tracelib.transcribe_cid_loads = original
            if len(rejected) != 2:
                core.selftest_failed("CidLoadTrace accepted a corrupted trace (%d of 2 rejected)" % len(rejected))
            report.notes["binding_demonstration"] = "a refused junk row marked as processed, and one row removed from an accepted load: " \
                                                    "both rejected by TLC"
        else:
            core.selftest_failed("no recorded Cid.read suitable for the binding demonstration")
    finally:
        core.cleanup(folder)


def replay(behaviour, report=None):
    core.import_repo()
    if behaviour.get("kind") == "cidtrace":
        return []
    return _job(behaviour)


def count_expressions(report):
    """
    A DistinctCount rule is the name of a declared field followed by the rest of a comparison, 'any comparison operator or
    mathematical expression available to the Python language' (docs): such CIDs load, and the check enforces the number the
    expression denotes. Names that are no mathematics (exit, len, id, ...) are C10's business.
    """
    import io
    import cutplace
    from cutplace import errors
    for rest, limit in (("< pow(2, 2)", 4), ("< abs(-4)", 4), ("< max(1, 4)", 4), ("< min(4, 9)", 4), ("< round(4.2)", 4), ("< 2 ** 2", 4),
                        ("< 8 // 2", 4), ("< int(4.9)", 4), ("< sum((1, 3))", 4), ("< (1 + 3)", 4), ("< 4 and count > 0", 4)):
        rule = "branch " + rest
        report.replayed += 1
        cid = cutplace.Cid()
        try:
            cid.read("cid", [["D", "Format", "delimited"], ["F", "branch"], ["C", "few branches", "DistinctCount", rule]])
        except errors.InterfaceError as error:
            report.violation("c09", {"count_expression": rule}, "accepted", str(error),
                             "CID with the DistinctCount rule %r (a field name and a mathematical expression) is rejected: %s" % (rule, error))
            continue
        verdicts = []
        for count in (limit - 1, limit):
            try:
                cutplace.validate(cid, io.StringIO("".join("b%d\r\n" % n for n in range(count))))
                verdicts.append(True)
            except errors.CheckError:
                verdicts.append(False)
        if verdicts != [True, False]:
            report.violation("c09", {"count_expression": rule}, [True, False], verdicts,
                             "DistinctCount rule %r: %d and %d distinct values are judged %s but must be judged [True, False]" % (
                                 rule, limit - 1, limit, verdicts))


def corrected_rows(report):
    """
    A CID built row by row in a program (add_data_format_row / add_field_format_row / add_check_row): a row that is refused
    declares nothing -- the corrected row of the same name is accepted ('each with a unique name' speaks about the fields that
    were declared), a second row of an accepted name is refused, and the fields end up in the order of the accepted rows.
    """
    import cutplace
    from cutplace import errors
    bad_rows = {"unknown type": ["amount", "", "", "", "NoSuchType"], "broken length": ["amount", "", "", "1...x", "Integer"],
                "broken rule": ["amount", "", "", "", "Integer", "1...x"], "example outside the rule": ["amount", "7", "", "", "Integer", "10...20"],
                "bad mark": ["amount", "", "maybe", "", "Integer"], "lengths the wrong way round": ["amount", "", "", "5...2", "Text"],
                "empty choice": ["amount", "", "", "", "Choice", ""], "keyword as type": ["amount", "", "", "", "class"]}
    for fmt in ("delimited", "fixed"):
        for label, bad in sorted(bad_rows.items()):
            report.replayed += 1
            steps = []
            cid = cutplace.Cid()
            cid.add_data_format_row(["format", fmt])
            length = "3" if fmt == "fixed" else ""
            first = ["first", "", "", length, "Text"]
            good = ["amount", "12", "", "2" if fmt == "fixed" else "", "Integer", "10...20"]
            bad_row = list(bad)
            if fmt == "fixed" and label not in ("broken length", "lengths the wrong way round"):
                bad_row[3:4] = ["2"]
            for what, row, want in (("first field", first, "accepted"), ("refused row (%s)" % label, bad_row, "refused"),
                                    ("corrected row of the same name", good, "accepted"), ("the same row again", good, "refused"),
                                    ("another field", ["last", "", "", length, "Text"], "accepted")):
                try:
                    cid.add_field_format_row(list(row))
                    got = "accepted"
                except errors.InterfaceError as error:
                    got = "refused"
                    text = str(error)
                except Exception as error:  # noqa
                    got = "%s: %s" % (type(error).__name__, error)
                steps.append((what, row, got))
                if got != want:
                    report.violation("c09", {"corrected_rows": label, "format": fmt}, want, got,
                                     "%s CID built row by row: %s %r is %s but must be %s%s; steps so far %r" % (
                                         fmt, what, row, got, want, " (%s)" % text if got == "refused" else "", steps))
                    break
            else:
                if list(cid.field_names) != ["first", "amount", "last"]:
                    report.violation("c09", {"corrected_rows": label, "format": fmt}, ["first", "amount", "last"], list(cid.field_names),
                                     "%s CID built row by row with a refused row (%s) in between: fields are %r" % (fmt, label, list(cid.field_names)))
    report.notes["corrected_rows"] = "row-level API: a refused field row followed by its correction, 8 kinds of refusal x 2 formats"


def run(tier, report):
    core.import_repo()
    count_expressions(report)
    corrected_rows(report)
    result = core.tlc("MCCidLoad", "CidLoad_quick.cfg" if tier == "quick" else "CidLoad_deep.cfg", timeout=7000)
    core.require_coverage(result, ["ReadRow", "Finish"], "CidLoad")
    report.add_tlc("CidLoad: base CIDs x one defect of the catalogue at every applicable row x row-level rewrites", result)
    pinned = core.tlc("MCCidLoad", "CidLoad_pinned_examples.cfg", expect_violation=True, coverage=False)
    if pinned.violated != "AcceptedIffSound":
        raise core.MachineryError("ExamplesJudgedWhenComplete = FALSE (D65) gave no counterexample")
    report.notes["expected_counterexamples"] = [{"cfg": "CidLoad_pinned_examples.cfg", "violated": pinned.violated,
                                                 "deviation": "D65 examples are judged only when the field is declared"}]
    vectors = result.by_tag("VEC")
    outcomes = core.parallel_map(_job, vectors, chunk=200)
    shapes = {}
    for vec, problems in zip(vectors, outcomes):
        report.replayed += 4
        report.count(core.json.dumps(vec["rows"], sort_keys=True), vec["label"] != "none")
        if vec["label"] in ("tagF", "dupName", "checkBeforeFields", "contra") and len(report.samples) < 6:
            report.sample({"defect": vec["label"], "rows": concrete_rows(vec, 0)[1], "predicted": vec["status"], "row": vec["errRow"]})
        for problem in problems:
            shape = problem.split(" (")[0] + problem.split("): ")[1][:40]
            shapes[shape] = shapes.get(shape, 0) + 1
            if shapes[shape] <= 1:
                report.violation("c09", vec, {"status": vec["status"], "errRow": vec["errRow"]}, None, problem)
            else:
                report.violations.append({"what": problem})
    cid_load_traces(report, vectors, tier)
    if not report.violations:
        for vec in vectors:
            if vec["status"] == "rejected" and vec["errRow"] > 1:
                corrupted = dict(vec)
                corrupted["errRow"] = vec["errRow"] - 1
                if not _job(corrupted):
                    core.selftest_failed("C09: a corrupted predicted row number was not noticed")
                break
    report.exhaustive = True
    report.assumptions += [
        "a check is required to follow at least one field; fields declared after a check are not generated (the property text can "
        "be read either way)",
        "for defects that only show when the CID is complete (no format, no fields, contradictory settings) no row is asserted",
        "one concrete cell per catalogue entry (appendix C of DESIGN.md); the tokenizer front end is the harness's, not the model's",
    ]
    return report.finish(rule="one case = base CID + at most one defect + subset of row-level rewrites (comment rows, empty rows, late "
                              "property row) from TLC, replayed plain / with lower-case blank-padded markers / with trailing cells / "
                              "from CSV text; non-trivial = has a defect; distinct by abstract row sequence")
