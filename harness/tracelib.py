"""
Trace validation (code -> spec): event logs written by cutplace/_verif.py are
transcribed into the trace format of spec/SessionTrace.tla and validated by TLC.

The preprocessing only transcribes. It groups events per (process, Cid),
attaches to every `open` event the rows its session went on to process (as
logged by the later `row` / `write_begin` events), pairs write_begin/write_end
and close_begin/close_end, and turns the distinct-count expression text into
(operator, number). It computes no state and no verdict.
"""
import json
import os
import re

from harness import core

_COUNT_RE = re.compile(r"^count\s*(<=|>=|==|!=|<|>)\s*(\d+)\s*$")
_OPS = {"<": "lt", "<=": "le", "==": "eq", ">=": "ge", ">": "gt", "!=": "ne"}


class Skip(Exception):
    """The trace is outside what Session.tla describes (reason in args[0])."""


def enable_hooks(path):
    """Turn the hooks on in this process (before or after cutplace has been imported)."""
    os.environ[core.GUARD] = "1"
    os.environ["CUTPLACE_VERIF_TRACE"] = path
    core.import_repo()
    from cutplace import _verif
    _verif.ENABLED = True
    _verif._TRACE_PATH = path


def disable_hooks():
    os.environ.pop(core.GUARD, None)
    os.environ.pop("CUTPLACE_VERIF_TRACE", None)
    try:
        from cutplace import _verif
        _verif.ENABLED = False
    except ImportError:
        pass


def load_events(path, cid_loading=False):
    """Session events (default) or the events of CID loading (`cid_*`) of an event log."""
    events = []
    with open(path, encoding="utf-8") as trace_file:
        for line in trace_file:
            line = line.strip()
            if line:
                event = json.loads(line)
                if event["ev"].startswith("cid_") == cid_loading:
                    events.append(event)
    return events


def shape_of(open_event):
    fields = open_event["fields"]
    checks = []
    for kind in open_event["kinds"]:
        if kind["t"] == "u":
            checks.append({"t": "u", "key": [fields.index(name) + 1 for name in kind["fields"]]})
        elif kind["t"] == "d":
            match = _COUNT_RE.match(kind["expression"].strip())
            if not match:
                raise Skip("distinct-count expression %r is not of the form 'count <op> <n>'" % kind["expression"])
            checks.append({"t": "d", "f": fields.index(kind["field"]) + 1, "op": _OPS[match.group(1)], "n": int(match.group(2))})
        else:
            raise Skip("user-defined check class %s" % kind.get("cls"))
    return {"nfields": len(fields), "checks": checks, "header": open_event["header"]}


def abstract_row(event, nfields):
    """The abstract row of a `row` / `write_begin` event: what the code was given plus the class of its outcome."""
    items = event.get("items", -1)
    error = event.get("error")
    if items < nfields:
        return {"w": "short", "c": ["ok"], "v": [0]}
    if items > nfields:
        return {"w": "long", "c": ["ok"], "v": [0]}
    values = event.get("v") or [0] * nfields
    cells = ["ok"] * nfields
    if error is not None and error["cls"] == "FieldValueError":
        cells[error.get("cell", 0)] = "rej"
    return {"w": "ok", "c": cells, "v": values}


def transcribe(events):
    """
    Events of ONE Cid object (in seq order) -> (shape, trace events for SessionTrace.tla).
    Raises Skip if the trace is outside the specification.
    """
    if not events or events[0]["ev"] != "open":
        raise Skip("trace does not start with an open event")
    shape = shape_of(events[0])
    nfields = shape["nfields"]
    result = []
    current = None  # the session that may log events now
    rows_of = {}
    pending_write = None
    pending_close = None
    closed = set()
    waiting = []  # readers that were created and have not logged anything since
    started = set()
    for event in events:
        kind = event["ev"]
        sid = event["sid"]
        if kind == "open":
            if pending_write is not None:
                # the session was dropped after a rejected write: the bookkeeping after it was never logged
                pending_write["emitted"] = False
                pending_write["sizes"] = []
                pending_write = None
            if shape_of(event) != shape:
                raise Skip("the Cid object changed its shape between sessions")
            rows = []
            rows_of[sid] = rows
            if current is not None and current in waiting and len(waiting) > 1:
                raise Skip("several readers wait to be read (the specification has room for one)")
            current = sid
            if event["kind"] == "reader":
                waiting.append(sid)  # created, nothing logged yet
            if len(waiting) > 2:
                raise Skip("several readers wait to be read (the specification has room for one)")
            result.append({"ev": "open", "sid": sid, "kind": event["kind"], "mode": event.get("mode") or "raise",
                           # (TLC's integers have 32 bits: a limit beyond every row of any trace is written as one million)
                           "until": -1 if event.get("until") is None else min(event["until"], 1000000), "sizes": event["sizes"],
                           "rows": rows})
            continue
        if sid != current:
            # a reader that was created earlier and has logged nothing since is read now (Park / Resume of Session.tla);
            # the specification has room for one such reader
            if kind == "reader_start" and waiting == [sid]:
                current = sid
                if pending_write is not None:
                    # the session before was dropped after a rejected write: the bookkeeping after it was never logged
                    pending_write["emitted"] = False
                    pending_write["sizes"] = []
                    pending_write = None
            else:
                raise Skip("sessions of one Cid interleave (the sequential specification does not apply)")
        if sid in waiting:
            waiting.remove(sid)
        if kind == "reader_start":
            if sid in started:
                # rows() is called once more on the same reader (ReadAgain): what it logs from now on is a new pass
                if sid in closed:
                    raise Skip("a closed reader is read again")
                rows = []
                rows_of[sid] = rows
                result.append({"ev": "again", "sid": sid, "rows": rows})
            started.add(sid)
            result.append({"ev": "reader_start", "sid": sid, "sizes": event["sizes"], "acc": event["acc"], "rej": event["rej"]})
        elif kind == "row":
            row = abstract_row(event, nfields)
            rows_of[sid].append(row)
            error = event.get("error") or {}
            transcribed = {"ev": "row", "sid": sid, "n": event["n"], "line": event["line"], "kind": event["kind"],
                           "validated": bool(event.get("validated", True)), "acc": event["acc"], "rej": event["rej"],
                           "sizes": event["sizes"],
                           "error": {"cls": error.get("cls", "none"), "line": error.get("line", -1),
                                     "cell": error.get("cell", -1), "see": error.get("see", -1)}}
            result.append(transcribed)
        elif kind == "write_begin":
            if pending_write is not None:
                pending_write["emitted"] = False
                # the bookkeeping after a rejected write is what the next event of the session shows before it acts
                pending_write["sizes"] = event["sizes"]
            row = abstract_row(event, nfields)
            rows_of[sid].append(row)
            pending_write = {"ev": "write", "sid": sid, "line": event["line"], "emitted": None, "sizes": None,
                             "_row": row}
            result.append(pending_write)
        elif kind == "reject":
            # the field error that is about to reject the row being validated; readers log it again with the row
            if pending_write is not None and pending_write["_row"]["w"] == "ok":
                cell = (event.get("error") or {}).get("cell", 0)
                if 0 <= cell < nfields:
                    pending_write["_row"]["c"][cell] = "rej"
        elif kind == "write_end":
            if pending_write is None:
                raise Skip("write_end without write_begin")
            pending_write["emitted"] = True
            pending_write["sizes"] = event["sizes"]
            pending_write = None
        elif kind == "exit":
            if pending_write is not None:
                pending_write["emitted"] = False
                pending_write["sizes"] = event["sizes"]
                pending_write = None
            result.append({"ev": "exit", "sid": sid, "exc": event.get("exc") or "none"})
        elif kind == "close_begin":
            if pending_write is not None:
                pending_write["emitted"] = False
                pending_write["sizes"] = event["sizes"]
                pending_write = None
            pending_close = {"ev": "close", "sid": sid, "sizes": event["sizes"], "failed": 0}
            result.append(pending_close)
        elif kind == "close_checked":
            if pending_close is None:
                raise Skip("close_checked without close_begin")
            pending_close["_completed"] = True
        elif kind == "close_end":
            if pending_close is None:
                raise Skip("close_end without close_begin")
            # no close_checked in between: the loop over the checks was left by an error of check `last`
            pending_close["_error"] = None if pending_close.pop("_completed", False) else True
            pending_close["_failed_name"] = event.get("last")
            pending_close = None
            closed.add(sid)
        else:
            raise Skip("unknown event %r" % kind)
    if pending_write is not None:
        # the log ends after a write_begin: whether the row was emitted is not recorded; drop the session's tail
        result.remove(pending_write)
        rows_of[pending_write["sid"]].pop()
    for event in result:
        if event["ev"] == "write":
            event.pop("_row", None)
            # a rejected row's cell classes: nothing was logged about the reason, let the row be as given
    return shape, result


def resolve_close(result, check_names):
    """Turn the name of the check that failed at the end (as logged) into its 1-based index."""
    for event in result:
        if event["ev"] == "close":
            error = event.pop("_error", None)
            name = event.pop("_failed_name", None)
            event.pop("failed_name", None)
            event["failed"] = (check_names.index(name) + 1) if (error is not None and name in check_names) else 0


def group_by_cid(events):
    groups = {}
    for event in events:
        groups.setdefault((event.get("pid", 0), event["cid"]), []).append(event)
    for key in groups:
        groups[key].sort(key=lambda e: e["seq"])
    return groups


def tla_value(value):
    """Python -> TLA+ text for check descriptors."""
    if isinstance(value, bool):
        return "TRUE" if value else "FALSE"
    if isinstance(value, int):
        return str(value)
    if isinstance(value, str):
        return '"%s"' % value
    if isinstance(value, list):
        return "<<" + ", ".join(tla_value(v) for v in value) + ">>"
    if isinstance(value, dict):
        return "[" + ", ".join("%s |-> %s" % (k, tla_value(v)) for k, v in sorted(value.items())) + "]"
    raise core.MachineryError("cannot write %r as TLA+" % (value,))


def validate(report, trace_path, label, expect_rejection_of=None):
    """
    Validate every trace in the event log `trace_path`. Returns (accepted, rejected list, skipped dict).
    A rejected trace is a VIOLATION of `report.property_id` (unless expect_rejection_of is given: self-test).
    """
    events = load_events(trace_path)
    by_shape = {}
    skipped = {}
    for (pid, cid), cid_events in sorted(group_by_cid(events).items()):
        try:
            # names of the checks are needed to resolve the failing end check: keep them from the open event
            shape, transcribed = transcribe(cid_events)
            resolve_close(transcribed, _check_names(cid_events))
        except Skip as skip:
            skipped[skip.args[0]] = skipped.get(skip.args[0], 0) + 1
            continue
        key = json.dumps(shape, sort_keys=True)
        by_shape.setdefault(key, []).append(((pid, cid), transcribed))
    accepted = 0
    rejected = []
    for key, traces in sorted(by_shape.items()):
        shape = json.loads(key)
        got_accepted, got_rejected = validate_transcribed(report, shape, [t for _, t in traces], label,
                                                          [c for c, _ in traces])
        accepted += got_accepted
        rejected += got_rejected
    return accepted, rejected, skipped


def validate_transcribed(report, shape, transcribed_traces, label, cids=None, ror="TRUE"):
    """One TLC run over traces that share a shape. Returns (number accepted, list of rejected)."""
    key = json.dumps(shape, sort_keys=True)
    traces = list(zip(cids or [[0, i + 1] for i in range(len(transcribed_traces))], transcribed_traces))
    accepted = 0
    rejected = []
    if True:
        folder = core.workdir("trace")
        try:
            trace_file = os.path.join(folder, "traces.json")
            with open(trace_file, "w", encoding="utf-8") as out:
                json.dump([t for _, t in traces], out)
            module = os.path.join(folder, "TraceMC.tla")
            with open(module, "w", encoding="utf-8") as out:
                out.write("---- MODULE TraceMC ----\nEXTENDS SessionTrace\nTrChecks == %s\nNoTables == {}\n"
                          "NoModes == {}\n====\n" % tla_value(shape["checks"]))
            cfg = os.path.join(folder, "TraceMC.cfg")
            with open(cfg, "w", encoding="utf-8") as out:
                out.write("INIT TInit\nNEXT TNext\nCONSTANTS\n  NFields = %d\n  Checks <- TrChecks\n  Header = %d\n"
                          "  Tables <- NoTables\n  Modes <- NoModes\n  Limits <- NoModes\n  Apis <- NoModes\n  Ends <- NoModes\n"
                          "  Writers = TRUE\n  MaxOps = 0\n  ResetOnOpen = TRUE\n  ResetOnStart = TRUE\n  Parking = FALSE\n  Rereads = FALSE\n  RegisterOnReach = %s\n  RegisterBeforeWrite = TRUE\n"
                          "  EndChecksOnError = FALSE\n  LogCalls = FALSE\nINVARIANT Progress\nCHECK_DEADLOCK FALSE\n"
                          % (shape["nfields"], shape["header"], ror))
            result = core.tlc(module, cfg, env={"TRACE_FILE": trace_file}, coverage=False, tag="tracetlc", workers=8)
            report.add_tlc("SessionTrace %s: %d traces, checks %s" % (label, len(traces), key[:80]), result)
            furthest = {}
            for tid, position in result.by_tag("AT"):
                furthest[tid] = max(furthest.get(tid, 0), position)
            for index, ((pid, cid), transcribed) in enumerate(traces, 1):
                reached = furthest.get(index, 0)
                if reached == len(transcribed) + 1:
                    accepted += 1
                else:
                    stuck = transcribed[reached - 1] if 0 < reached <= len(transcribed) else None
                    rejected.append({"cid": [pid, cid], "shape": shape, "events": len(transcribed),
                                     "matched_prefix": reached - 1, "no_action_explains": _brief(stuck),
                                     "trace": transcribed})
        finally:
            core.cleanup(folder)
    if rejected and ror == "TRUE":
        # known finding D12 open: the code registers keys on reach. Should it ever be repaired, the property-holding
        # switch position explains the traces instead.
        again_accepted, again_rejected = validate_transcribed(report, shape, [r["trace"] for r in rejected], label + " (ideal)",
                                                              [r["cid"] for r in rejected], ror="FALSE")
        accepted += again_accepted
        rejected = again_rejected
    return accepted, rejected


def _brief(event):
    if event is None:
        return None
    return {k: v for k, v in event.items() if k != "rows"}


def _check_names(cid_events):
    """Names of the checks in declaration order, as logged with the open event."""
    return cid_events[0].get("check_names") or []


# ------------------------------------------------------------------ traces of CID loading (CidLoadTrace.tla)
KNOWN_FORMATS = ("delimited", "csv", "fixed", "excel", "ods")


def transcribe_cid_loads(events):
    """Events of CID loading -> list of traces [{events, done}] (one per Cid.read call) in the vocabulary of CidLoadTrace.tla."""
    groups = {}
    for event in events:
        groups.setdefault((event.get("pid", 0), event["cidload"]), []).append(event)
    traces = []
    for key in sorted(groups):
        group = sorted(groups[key], key=lambda e: e["seq"])
        names = {}
        descriptions = {}
        out = []
        pending = None
        done = False
        for event in group:
            if event["ev"] == "cid_row_begin":
                cells = event.get("cells") or []
                marker = cells[0].lower().strip() if cells else None
                if not cells:
                    kind = "blank"
                elif marker == "":
                    kind = "comment"
                elif marker in ("d", "f", "c"):
                    kind = marker.upper()
                else:
                    kind = "junk"
                second = cells[1] if len(cells) > 1 else ""
                third = cells[2] if len(cells) > 2 else ""
                row = {"ev": "row", "k": kind, "line": event["line"], "ended": False, "isformat": False, "val": "", "id": 0,
                       "nfields": 0, "nchecks": 0}
                if kind == "D":
                    row["isformat"] = second.lower() == "format"
                    if row["isformat"]:
                        row["val"] = third.lower() if third.lower() in KNOWN_FORMATS else "unknownfmt"
                elif kind == "F":
                    row["id"] = names.setdefault(second.strip(), len(names) + 1)
                elif kind == "C":
                    row["id"] = descriptions.setdefault(second, len(descriptions) + 1)
                pending = row
                out.append(row)
            elif event["ev"] == "cid_row_end":
                if pending is not None:
                    pending["ended"] = True
                    pending["nfields"] = event["nfields"]
                    pending["nchecks"] = event["nchecks"]
                    pending = None
            elif event["ev"] == "cid_done":
                out.append({"ev": "done", "k": "", "line": event["line"], "ended": True, "isformat": False, "val": "", "id": 0,
                            "nfields": event["nfields"], "nchecks": event["nchecks"]})
                done = True
        traces.append({"events": out, "done": done})
    return traces


def validate_cid_loads(report, trace_path, label):
    """Validate every recorded Cid.read against CidLoadTrace.tla; returns (accepted, rejected list)."""
    traces = transcribe_cid_loads(load_events(trace_path, cid_loading=True))
    traces = [t for t in traces if t["events"]]
    if not traces:
        return 0, []
    folder = core.workdir("cidtrace")
    try:
        trace_file = os.path.join(folder, "traces.json")
        with open(trace_file, "w", encoding="utf-8") as out:
            json.dump(traces, out)
        module = os.path.join(folder, "CidTraceMC.tla")
        with open(module, "w", encoding="utf-8") as out:
            out.write("---- MODULE CidTraceMC ----\nEXTENDS CidLoadTrace\nNone0 == {}\n====\n")
        cfg = os.path.join(folder, "CidTraceMC.cfg")
        with open(cfg, "w", encoding="utf-8") as out:
            out.write("INIT TInit\nNEXT TNext\nCONSTANTS\n  Formats <- None0\n  MaxFields = 0\n  MaxChecks = 0\n  FTags <- None0\n"
                      "  CTags <- None0\n  Decorations <- None0\n  ExamplesJudgedWhenComplete = TRUE\nINVARIANT Progress\nCHECK_DEADLOCK FALSE\n")
        result = core.tlc(module, cfg, env={"TRACE_FILE": trace_file}, coverage=False, tag="cidtracetlc", workers=8)
        report.add_tlc("CidLoadTrace %s: %d recorded Cid.read calls" % (label, len(traces)), result)
        furthest = {}
        for tid, position in result.by_tag("AT"):
            furthest[tid] = max(furthest.get(tid, 0), position)
        accepted = 0
        rejected = []
        for index, trace in enumerate(traces, 1):
            if furthest.get(index, 0) == len(trace["events"]) + 2:
                accepted += 1
            else:
                reached = min(furthest.get(index, 1), len(trace["events"]))
                rejected.append({"events": len(trace["events"]), "matched_prefix": reached - 1,
                                 "no_action_explains": trace["events"][reached - 1] if trace["events"] else None, "trace": trace})
        return accepted, rejected
    finally:
        core.cleanup(folder)
