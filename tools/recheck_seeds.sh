#!/bin/bash
# usage: tools/recheck_seeds.sh [jobs] [name...]   -- regression run of the machinery against the seeded changes kept in
# /verif/seeded: for each one a scratch worktree of /repo HEAD gets the patch (plain, else three-way against the blobs it was
# made from; "no longer applies" if neither works), the demo is run, and the quick check of its property runs with VERIF_REPO
# pointing at the worktree (evidence goes to a scratch directory). Prints one line per seed; leaves /repo and /verif/evidence alone.
jobs=${1:-4}; shift
cd "$(dirname "$0")/.."
names="$@"; [ -z "$names" ] && names=$(ls seeded)
mkdir -p work/seeds
one() {
  name=$1
  prop=$(/venv/bin/python -c "import json;print(json.load(open('/verif/seeded/$name/meta.json'))['property'])")
  wt=/tmp/recheck-$name
  rm -rf $wt; git -C /repo worktree add -q --detach $wt HEAD || { echo "$name: cannot create worktree"; return; }
  how=plain
  if ! git -C $wt apply /verif/seeded/$name/patch.diff 2>/dev/null; then
    how=3way
    if ! git -C $wt apply --3way /verif/seeded/$name/patch.diff > /dev/null 2>&1 || git -C $wt diff --name-only --diff-filter=U | grep -q .; then
      echo "$name ($prop): patch no longer applies to HEAD"; git -C /repo worktree remove --force $wt; return
    fi
  fi
  ( cd $wt && timeout 300 /venv/bin/python /verif/seeded/$name/demo.py $wt > /dev/null 2>&1 ); demo=$?
  mkdir -p work/seeds/ev-$name
  VERIF_REPO=$wt VERIF_EVIDENCE_DIR=$PWD/work/seeds/ev-$name ./check $prop quick > work/seeds/$name.out 2>&1; rc=$?
  echo "$name ($prop, $how): demo rc=$demo; check exit=$rc, $(grep -c '^VIOLATION' work/seeds/$name.out) VIOLATION lines"
  rm -rf work/seeds/ev-$name
  git -C /repo worktree remove --force $wt > /dev/null 2>&1
}
export -f one
echo $names | tr ' ' '\n' | xargs -P "$jobs" -L 1 bash -c 'one $0'
git -C /repo worktree prune
