#!/bin/sh
# usage: tools/recheck_seeds.sh [name...]   -- regression run of the machinery against the seeded changes kept in /verif/seeded:
# for each one, a scratch worktree of /repo HEAD gets the patch (if it still applies), the demo is run, and the quick check of
# its property runs with VERIF_REPO pointing at the worktree (evidence goes to a scratch directory). Prints one line per seed.
cd /verif
names="$@"; [ -z "$names" ] && names=$(ls seeded)
mkdir -p /tmp/recheck-evidence
for name in $names; do
  prop=$(/venv/bin/python -c "import json;print(json.load(open('/verif/seeded/$name/meta.json'))['property'])")
  wt=/tmp/recheck-$name
  git -C /repo worktree add -q --detach $wt HEAD || { echo "$name: cannot create worktree"; continue; }
  if ! git -C $wt apply /verif/seeded/$name/patch.diff 2>/dev/null; then
    echo "$name ($prop): patch no longer applies to HEAD"; git -C /repo worktree remove --force $wt; continue
  fi
  ( cd $wt && /venv/bin/python /verif/seeded/$name/demo.py $wt > /dev/null 2>&1 ); demo=$?
  VERIF_REPO=$wt VERIF_EVIDENCE_DIR=/tmp/recheck-evidence /verif/check $prop quick > /tmp/recheck-$name.out 2>&1; rc=$?
  echo "$name ($prop): demo rc=$demo; check exit=$rc, $(grep -c '^VIOLATION' /tmp/recheck-$name.out) VIOLATION lines"
  git -C /repo worktree remove --force $wt
done
rm -rf /tmp/recheck-evidence
