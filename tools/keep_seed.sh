#!/bin/bash
# usage: tools/keep_seed.sh <name> <property> -- copies the deliverables of a seeding sub-agent (/tmp/hunt/wt-<name>/_out) to
# /verif/seeded/<name>, confirms the change in a fresh worktree (tests, demo with / without) and runs the quick check of the property
name=$1; prop=$2
out=/tmp/hunt/wt-$name/_out
mkdir -p /verif/seeded/$name
cp $out/patch.diff $out/demo.py /verif/seeded/$name/ || exit 2
cp $out/notes.txt /verif/seeded/$name/notes.md 2>/dev/null || cp $out/notes.md /verif/seeded/$name/notes.md 2>/dev/null
wt=/tmp/keep-$name
rm -rf $wt; git -C /repo worktree add -q --detach $wt HEAD || exit 2
( cd $wt && /venv/bin/python /verif/seeded/$name/demo.py $wt > /dev/null 2>&1 ); without=$?
git -C $wt apply /verif/seeded/$name/patch.diff || { echo "patch does not apply"; git -C /repo worktree remove --force $wt; exit 2; }
tests=$(cd $wt && timeout 600 /venv/bin/python -m pytest -q -p no:cacheprovider 2>&1 | tail -1)
( cd $wt && /venv/bin/python /verif/seeded/$name/demo.py $wt > /dev/null 2>&1 ); with=$?
mkdir -p /verif/work/seeds/ev-$name
VERIF_REPO=$wt VERIF_EVIDENCE_DIR=/verif/work/seeds/ev-$name /verif/check $prop quick > /verif/work/seeds/$name.out 2>&1; rc=$?
n=$(grep -c '^VIOLATION' /verif/work/seeds/$name.out)
rm -rf /verif/work/seeds/ev-$name
base=$(git -C /repo log --format=%h -1)
echo "$name ($prop): tests [$tests]; demo without=$without with=$with; check exit=$rc, $n VIOLATION lines"
grep -A1 '^VIOLATION' /verif/work/seeds/$name.out | grep 'what:' | head -2 | cut -c1-300
grep MACHINERY /verif/work/seeds/$name.out | head -2 | cut -c1-300
/venv/bin/python - "$name" "$prop" "$base" "$tests" "$without" "$with" "$rc" "$n" <<'PY'
import json, sys, os
name, prop, base, tests, without, with_, rc, n = sys.argv[1:9]
path = "/verif/seeded/%s/meta.json" % name
notes = open("/verif/seeded/%s/notes.md" % name).read() if os.path.exists("/verif/seeded/%s/notes.md" % name) else ""
meta = {"property": prop, "base_commit": base, "needs_to_manifest": notes[:1500],
        "confirmed": {"tests_with_change": tests, "demo_exit_without_change": int(without), "demo_exit_with_change": int(with_),
                      "how": "fresh scratch worktree of /repo HEAD (tools/keep_seed.sh)"},
        "caught_by": ("%s quick (%s VIOLATION lines) as the machinery stood" % (prop, n)) if rc == "1" and n != "0" else "NOT CAUGHT at first (exit %s)" % rc}
json.dump(meta, open(path, "w"), indent=1)
PY
git -C /repo worktree remove --force $wt
