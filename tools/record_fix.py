#!/venv/bin/python
"""usage: tools/record_fix.py <finding id> <property> "<what failed>" ["<how found>"] -- records the HEAD commit of /repo as the
repair of a genuine defect in known_findings.json (status fixed; a fixed entry suppresses nothing)."""
import json
import subprocess
import sys

finding, prop, what = sys.argv[1:4]
how = sys.argv[4] if len(sys.argv) > 4 else ""
import os
commit = os.environ.get("FIX_COMMIT") or subprocess.run(["git", "-C", "/repo", "log", "--format=%h", "-1"], stdout=subprocess.PIPE, universal_newlines=True).stdout.strip()
path = "/verif/known_findings.json"
known = json.load(open(path))
if any(f["id"] == finding for f in known["findings"]):
    raise SystemExit("finding %s exists already" % finding)
known["findings"].append({"id": finding, "property": prop, "status": "fixed", "commit": commit,
                          "what": what + (". " + how if how else ""),
                          "line": "fixed: property=%s %s %s" % (prop, commit, what.split(":")[0])})
json.dump(known, open(path, "w"), indent=1, ensure_ascii=True)
print(finding, commit)
