#!/bin/bash
# usage: tools/recheck_fixes.sh [jobs] [finding ids...]
# "A fixed entry suppresses nothing": every repair recorded in known_findings.json is taken back in a scratch worktree
# (git revert --no-commit <commit> on top of HEAD) and the quick check of its property must raise a VIOLATION again.
# Prints one line per finding: caught / MISSED / conflict (the revert does not apply on today's tree any more) and
# leaves /repo and /verif/evidence alone (VERIF_REPO, VERIF_EVIDENCE_DIR).
jobs=${1:-4}; shift
cd "$(dirname "$0")/.."
mkdir -p work/fixes
/venv/bin/python - "$@" > work/fixes/list.txt <<'PY'
import json, sys
wanted = set(sys.argv[1:])
seen = set()
for f in json.load(open("known_findings.json"))["findings"]:
    if f["status"] == "fixed" and f.get("commit") and (not wanted or f["id"] in wanted):
        key = (f["commit"], f["property"])
        if key in seen:
            continue
        seen.add(key)
        print(f["id"], f["property"], f["commit"])
PY
one() {
  id=$1; prop=$2; commit=$3
  wt=/tmp/fixwt-$id
  rm -rf $wt; git -C /repo worktree add -q --detach $wt HEAD || { echo "$id $prop $commit worktree-failed"; return; }
  if ! git -C $wt revert --no-commit $commit > work/fixes/$id.revert.log 2>&1; then
    echo "$id $prop $commit conflict"
  else
    mkdir -p work/fixes/ev-$id
    VERIF_REPO=$wt VERIF_EVIDENCE_DIR=$PWD/work/fixes/ev-$id ./check $prop quick > work/fixes/$id.out 2>&1
    rc=$?
    n=$(grep -c '^VIOLATION' work/fixes/$id.out)
    if [ $rc -eq 1 ] && [ $n -gt 0 ]; then echo "$id $prop $commit caught ($n VIOLATION lines)"
    else echo "$id $prop $commit MISSED exit=$rc $(grep MACHINERY work/fixes/$id.out | head -1 | cut -c1-120)"; fi
    rm -rf work/fixes/ev-$id
  fi
  git -C /repo worktree remove --force $wt > /dev/null 2>&1
}
export -f one
xargs -P "$jobs" -L 1 bash -c 'one $0 $1 $2' < work/fixes/list.txt
git -C /repo worktree prune
