#!/venv/bin/python
"""
usage: VERIF_AUDIT=/verif/work/audit tools/run_all.sh quick; tools/vacuity_audit.py [folder] [--all]
Reads what harness/core.py wrote under VERIF_AUDIT: per TLC run, the values every scalar field of the emitted behaviours took.
Prints the fields that took exactly ONE value in a run (a dimension of the model that does not vary there: intended for a
configuration that pins it, a vacuity if the constants say otherwise); with --all every field with its values.
"""
import json
import os
import sys

folder = next((a for a in sys.argv[1:] if not a.startswith("--")), os.path.join(os.path.dirname(os.path.dirname(os.path.abspath(__file__))), "work", "audit"))
show_all = "--all" in sys.argv
for name in sorted(os.listdir(folder)):
    seen = json.load(open(os.path.join(folder, name)))
    lines = []
    for path, values in seen.items():
        if show_all or (len(values) == 1 and not path.endswith(".#len")):
            lines.append("    %s: %s" % (path, ", ".join(values)[:160]))
    print("%s (%d fields)" % (name[:-5], len(seen)))
    print("\n".join(lines))
