#!/bin/sh
# usage: tools/try_seed_wt.sh <name> <patch.diff> <property ids...>
# Like try_seed.sh, but leaves /repo alone: the patch is applied in a scratch worktree and the quick checks run with
# VERIF_REPO pointing at it (safe while a background run uses /repo). Evidence files of the named properties are rewritten
# by these runs: rerun the checks on the clean tree afterwards.
name="$1"; patch="$2"; shift 2
wt=/tmp/try-$name
git -C /repo worktree add -q --detach $wt HEAD || exit 2
git -C $wt apply "$patch" || { git -C /repo worktree remove --force $wt; exit 2; }
for id in "$@"; do
  VERIF_REPO=$wt /verif/check $id quick > /tmp/try-$name.$id.out 2>&1
  echo "== $name: $id exit=$? $(grep -c '^VIOLATION' /tmp/try-$name.$id.out) VIOLATION lines"
  grep -A1 '^VIOLATION' /tmp/try-$name.$id.out | grep 'what:' | head -3
  grep 'MACHINERY' /tmp/try-$name.$id.out | head -2
done
git -C /repo worktree remove --force $wt
