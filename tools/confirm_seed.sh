#!/bin/sh
# usage: tools/confirm_seed.sh <name> <dir with patch.diff demo.py notes.md> <property> "<checks that catch it>"
# Confirms in a fresh scratch worktree: tests still pass with the change, demo fails with it and passes without; then stores it.
name="$1"; src="$2"; prop="$3"; caught="$4"
wt=/tmp/confirm-$name
git -C /repo worktree add -q --detach $wt HEAD || exit 2
( cd $wt && /venv/bin/python $src/demo.py $wt > /tmp/confirm.$name.before 2>&1; echo $? > /tmp/confirm.$name.rc0 )
git -C $wt apply $src/patch.diff || { git -C /repo worktree remove --force $wt; exit 2; }
( cd $wt && /venv/bin/python -m pytest -q -p no:cacheprovider 2>&1 | tail -1 > /tmp/confirm.$name.tests )
( cd $wt && /venv/bin/python $src/demo.py $wt > /tmp/confirm.$name.after 2>&1; echo $? > /tmp/confirm.$name.rc1 )
git -C /repo worktree remove --force $wt
echo "$name: tests with change: $(cat /tmp/confirm.$name.tests) | demo without change rc=$(cat /tmp/confirm.$name.rc0) | demo with change rc=$(cat /tmp/confirm.$name.rc1)"
mkdir -p /verif/seeded/$name
cp $src/patch.diff /verif/seeded/$name/patch.diff
cp $src/demo.py /verif/seeded/$name/demo.py
cp $src/notes.md /verif/seeded/$name/notes.md 2>/dev/null
/venv/bin/python - "$name" "$prop" "$caught" <<'PY'
import json, sys
name, prop, caught = sys.argv[1:4]
meta = {
 "property": prop,
 "base_commit": __import__("subprocess").run(["git","-C","/repo","log","--format=%h","-1"],stdout=-1,universal_newlines=True).stdout.strip(),
 "needs_to_manifest": open("/verif/seeded/%s/notes.md" % name).read()[:1500] if __import__("os").path.exists("/verif/seeded/%s/notes.md" % name) else "",
 "confirmed": {
   "tests_with_change": open("/tmp/confirm.%s.tests" % name).read().strip(),
   "demo_exit_without_change": int(open("/tmp/confirm.%s.rc0" % name).read()),
   "demo_exit_with_change": int(open("/tmp/confirm.%s.rc1" % name).read()),
   "how": "fresh scratch worktree of /repo HEAD; demo.py before applying patch.diff, full pytest and demo.py after; worktree removed"},
 "caught_by": caught,
}
json.dump(meta, open("/verif/seeded/%s/meta.json" % name, "w"), indent=1)
PY
