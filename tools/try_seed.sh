#!/bin/sh
# usage: tools/try_seed.sh <patch.diff> <property id>...   -- apply a seeded change to /repo, run the quick checks, undo it
patch="$1"; shift
git -C /repo diff --quiet || { echo "/repo has local changes"; exit 2; }
git -C /repo apply "$patch" || exit 2
for p in "$@"; do
  /verif/check "$p" quick > /tmp/try_seed.$p.out 2>&1
  echo "== $p exit=$? $(grep -c '^VIOLATION' /tmp/try_seed.$p.out) VIOLATION lines"
  grep -A1 '^VIOLATION' /tmp/try_seed.$p.out | grep 'what:' | head -3 | cut -c1-400
  grep 'MACHINERY' /tmp/try_seed.$p.out | head -2 | cut -c1-300
done
git -C /repo checkout -- .
git -C /repo status --short | grep -v '^??' | head
