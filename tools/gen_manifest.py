#!/venv/bin/python
"""Regenerate /verif/MANIFEST.json from the table below (keeps it valid at all times)."""
import json
import os
import subprocess

VERIF = os.path.dirname(os.path.dirname(os.path.abspath(__file__)))
ALL = ["C%02d" % i for i in range(1, 21)]

# property -> (technique, level text, level note, design ref)
CLAIMED = {
    "C01": ("TLA+ spec Ranges.tla: TLC exhaustive (1-2 items, limits -2..2) + simulation (1-4 items, all spellings); every TLC behaviour replayed into Range/DecimalRange",
            "Bounded-exhaustive model checking of the token-loop machine against the denotation of range descriptions, "
            "plus conformance: every behaviour TLC emits is spelled in every separator / limit spelling and pushed through "
            "cutplace.ranges; acceptance, items, folded limits and validate() on every probe must equal the denotation.",
            "Bounds: limits -2..2 / decimal halves -2..2 exhaustively, 15-value pool by simulation; the Python tokenizer "
            "front end is outside the model (harness owns spellings); TLC and the JSON bridge are trusted.",
            "DESIGN.md section 5, C01"),
}

NOT_BUILT = "check not built yet in this round (planned: see DESIGN.md section 5)"


def main():
    head = subprocess.run(["git", "-C", "/repo", "log", "--format=%h %s"], stdout=subprocess.PIPE, universal_newlines=True).stdout
    hook_commits = [line.split()[0] for line in head.splitlines() if line.split(" ", 1)[1].startswith("verif:")]
    manifest = {
        "version": 1,
        "setup_cmd": "./check setup",
        "hooks": {
            "guard": "CUTPLACE_VERIF",
            "enable": "env CUTPLACE_VERIF=1 CUTPLACE_VERIF_TRACE=<ndjson file> (set by the checks themselves; hooks are no-ops otherwise)",
            "baseline_off_cmd": "/verif/tools/run_baseline.py",
            "source_commits": hook_commits,
            "add_only": True,
        },
        "engines": [
            {"name": "tlc", "path": "/opt/veriftools/tla/tla2tools.jar", "serves_properties": sorted(CLAIMED),
             "kind_free_text": "TLC 1.8 explicit-state model checker: exhaustive, -simulate, and trace validation of recorded executions"},
            {"name": "harness", "path": "/verif/harness", "serves_properties": sorted(CLAIMED),
             "kind_free_text": "Python conformance harness: concretises TLC behaviours into API calls on /repo's working tree, projects observations back; records traces behind CUTPLACE_VERIF=1"},
        ],
        "checks": [],
        "notes": "All checks: ./check <id> quick|thorough. Exit 2 = machinery failure (never a verdict about /repo). "
                 "Known findings: /verif/known_findings.json.",
        "not_applicable": [],
    }
    for property_id in ALL:
        if property_id in CLAIMED:
            technique, text, note, ref = CLAIMED[property_id]
            manifest["checks"].append({
                "property_id": property_id,
                "quick_cmd": "./check %s quick" % property_id,
                "thorough_cmd": "./check %s thorough" % property_id,
                "evidence_file": "/verif/evidence/%s.json" % property_id,
                "replay_cmd_template": "./check %s --replay {path}" % property_id,
                "engine": "tlc",
                "level_claimed": {"category": "model_checking", "text": text, "design_ref": ref},
                "level_note": note,
                "technique": technique,
            })
        else:
            manifest["not_applicable"].append({"property_id": property_id, "reason": NOT_BUILT})
    with open(os.path.join(VERIF, "MANIFEST.json"), "w", encoding="utf-8") as manifest_file:
        json.dump(manifest, manifest_file, indent=1)
        manifest_file.write("\n")


if __name__ == "__main__":
    main()
