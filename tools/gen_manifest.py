#!/venv/bin/python
"""Regenerate /verif/MANIFEST.json from the table below (keeps it valid at all times)."""
import json
import os
import subprocess

VERIF = os.path.dirname(os.path.dirname(os.path.abspath(__file__)))
ALL = ["C%02d" % i for i in range(1, 21)]

# property -> (technique, level text, level note, design ref)
CLAIMED = {
    "C01": ("TLA+ spec Ranges.tla: TLC exhaustive (1-2 items, limits -2..2) + simulation (1-4 items, all spellings); every TLC behaviour replayed into Range/DecimalRange",
            "Bounded-exhaustive model checking of the token-loop machine against the denotation of range descriptions, "
            "plus conformance: every behaviour TLC emits is spelled in every separator / limit spelling and pushed through "
            "cutplace.ranges; acceptance, items, folded limits and validate() on every probe must equal the denotation.",
            "Bounds: limits -2..2 / decimal halves -2..2 exhaustively, 15-value pool by simulation; the Python tokenizer "
            "front end is outside the model (harness owns spellings); TLC and the JSON bridge are trusted.",
            "DESIGN.md section 5, C01"),
}

SESSION_NOTE = ("Bounds as in spec/Session_<cfg>.cfg (tables of up to 3-5 rows over small row alphabets, 2 value fields, "
                "histories of up to 2-4 runs); abstract cells are concretised as Integer cells; TLC, the JSON bridge and the "
                "projection in harness/sessionlib.py are trusted; the projection is exercised by a corruption self-test.")


def session(technique_detail, text, ref):
    return ("TLA+ spec Session.tla (reader/writer/check-state machine): TLC exhaustive over " + technique_detail +
            "; every behaviour TLC emits is replayed on a real Cid and compared with the specification's prediction",
            text, SESSION_NOTE, ref)


CLAIMED.update({
    "C04": session("all tables <= 3 rows (thorough 4) x 3 modes x container faults at every row boundary, header 0..2",
                   "TLC checks RowAcceptedIff and ErrorLocation (stated from the property text, independent of the machine) in "
                   "every reachable state; every explored run is replayed in delimited and fixed form: accepted / rejected, row "
                   "number, first offending column, error class, and that the error text names input, RnCm and the field.",
                   "DESIGN.md section 5, C04"),
    "C05": session("all tables <= 4 rows (thorough 5) over key alphabets with interleaved rejected rows x 3-8 check lists "
                   "(key sets of 1-2 fields, every comparison operator)",
                   "TLC checks UniqueIffEarlierAccepted (incl. see-also = first occurrence) and DistinctAtEnd; replay compares "
                   "per-row verdicts, see-also row and the end-of-data verdict. The expected-counterexample configuration "
                   "with RegisterOnReach=TRUE documents known finding D12. Unbounded companion: UniqueInductive.tla, the "
                   "uniqueness bookkeeping as an inductive invariant discharged by Apalache (any number of rows and data sets).",
                   "DESIGN.md section 5, C05"),
    "C06": session("all tables <= 3 rows x {raise, yield, continue} x faults at every row boundary, reader API with counters",
                   "TLC checks ModesAgree, CountersAddUp, FaultStopsEveryMode as relations between the three modes of one table; "
                   "replay compares yielded items, counters and the escaping error per mode (delimited and fixed).",
                   "DESIGN.md section 5, C06"),
    "C07": session("header 0..3 x limit {none, 0..6} x tables <= 4 rows (thorough 5) with a bad row at every position x "
                   "{rows, validate, with-Reader} APIs",
                   "TLC checks HeaderNeverValidated, LimitBoundary, ValidateStopsAfterN; replay through cutplace.rows, "
                   "cutplace.validate, Reader and the command line (--until N exit code).",
                   "DESIGN.md section 5, C07"),
    "C08": session("all histories of 2 runs (thorough: 3 exhaustively in the model, 4 by simulation) over 4 data sets sharing keys "
                   "x 3 APIs x 3 modes x 3 limits x {closed, never closed, abandoned} x writers",
                   "TLC checks HistoryIndependence (every run equals the same run on a fresh CID) with the check bookkeeping as "
                   "shared state; each history is replayed on ONE real Cid object. The configuration with ResetOnOpen=FALSE "
                   "documents the repaired defects D2/D13 as a counterexample.",
                   "DESIGN.md section 5, C08"),
    "C14": session("all row sequences <= 3 (thorough 4) mixing accepted rows, field errors, wrong item counts and duplicates "
                   "x header 0..1",
                   "TLC checks WriterEmitsAccepted and OutputRevalidates; replay drives cutplace.Writer row by row, compares the "
                   "stream after every call (nothing emitted for a rejected row, fixed: padded + declared line delimiter) and "
                   "reads the output back with cutplace.rows.",
                   "DESIGN.md section 5, C14"),
    "C20": session("all tables <= 2 rows (thorough 3) over cells {accepted by hook, refused by hook, empty-and-allowed, refused by a "
                   "guard} x 3 recording checks (accepting, vetoing, failing at end) x header 0..1 x limits x 3 modes x reader and "
                   "writer, and all two-run histories on one CID",
                   "TLC checks ProtocolHolds (the call protocol stated clause by clause from the property text) and CallsAsDocumented "
                   "on the call log kept by the model; replay uses recording subclasses resolved by class name from the CID and "
                   "compares the recorded call sequence with the predicted one; a sample runs in a subprocess where the classes "
                   "come from a plugin folder via import_plugins().",
                   "DESIGN.md section 5, C20"),
    "C12": ("TLA+ spec Delimited.tla (loader acceptance + csv keyword mapping + transcribed csv writer/reader automata): TLC "
            "exhaustive over 40 configuration classes x all tables within bounds; every behaviour replayed through "
            "DelimitedRowWriter / delimited_rows, plus the full concrete configuration product",
            "TLC checks RoundTrip for every accepted configuration class and every table within the bounds (and finds the D7 "
            "counterexample with the pinned acceptance rule); each behaviour is replayed on the real writer/reader; the csv "
            "transcription is compared with Python's csv on every behaviour (difference = machinery failure).",
            "Bounds: <= 2 rows, <= 2-4 cells, <= 3-4 characters per table over {delimiter, quote, escape, CR, LF, blank, x}; "
            "14 x 20 x 2 x 2 x 4 concrete configurations mapped onto their classes; Python's csv is modelled, not proved.",
            "DESIGN.md section 5, C12"),
    "C13": ("TLA+ spec FixedReader.tla (character-level machine of fixed_rows with push-back vs. directly stated language): TLC "
            "exhaustive over all strings <= 5 (thorough 6-7) x width lists x 5 delimiter settings + simulated mutants of longer "
            "well-formed files; every behaviour replayed through rowio.fixed_rows",
            "TLC checks LosslessAndAligned and ConsumedSoFar in every state; each explored input is read by the real fixed_rows "
            "and compared with Parse(input): rows, widths, and refusal of every malformed input.",
            "Bounds: alphabet {a, b, CR, LF}; quick 10 of the 39 width lists, thorough all; longer files only well-formed with "
            "one mutation.",
            "DESIGN.md section 5, C13"),
    "C02": ("TLA+ specs FieldInteger / FieldDateTime / FieldDecimal / FieldText (per-type mechanism transcribed from fields.py and "
            "ranges.py, checked by TLC against the meaning stated in the property); every explored (declaration, cell) replayed on "
            "the real field classes under delimited / fixed / excel / ods formats",
            "TLC checks IntegerMeansWhatItSays (length-derived ranges == 'text fits the length' at every power-of-ten boundary, "
            "rule/length/default precedence), DateMeansWhatItSays (ordered replacement translation + calendar validity over all "
            "layout orders), DecimalMeansWhatItSays (separator loop), TextMeansWhatItSays (choice, constant, glob, regex prefix "
            "match); each case is replayed: verdict and native value (int, Decimal, time tuple, str) must equal the denotation.",
            "Bounded grammars per type (see the MCField*.tla modules); canonical integer text, zero-padded dates; strptime / re / "
            "fnmatch are modelled for the generated subset and the strptime model is compared with the interpreter on every case; "
            "thorough adds the sweep of all integers of up to 6 characters x all length declarations.",
            "DESIGN.md section 5, C02"),
    "C03": ("TLA+ spec Fields.tla (guard pipeline of AbstractFieldFormat.validated, one action per guard): TLC exhaustive over 4 "
            "formats x empty flag x length declarations x allowed characters x cells <= 4 over {blank, allowed, disallowed} x hook "
            "verdict; every behaviour replayed on all 8 built-in field classes",
            "TLC checks GuardsHold (the property stated from its text); replay spells the cell for each type, measures the type's "
            "value hook in isolation and requires validated() to give the predicted outcome with the predicted number of hook "
            "calls; the D5 counterexample is kept as an expected-counterexample configuration.",
            "Cells up to 4 characters; the blank is always allowed; a blanks-only fixed-width cell longer than its field is not "
            "judged; the hooks themselves are C02.",
            "DESIGN.md section 5, C03"),
    "C11": ("TLA+ spec DataFormat.tla (applicability by format, value grammar and denotation per property, defaults, consistency): "
            "TLC exhaustive over 4 formats x every setting of the pool (7 spellings x 15 code points + malformed values + every "
            "other property's value classes) and all pairs of contradiction-relevant settings; every behaviour replayed through "
            "DataFormat.set_property/validate and Cid.read",
            "TLC checks DefaultsKept and NeverContradictory and emits, per behaviour, whether each setting applies, what it "
            "denotes and whether the completed format is consistent; replay in 3 spelling variants of names and values compares "
            "acceptance, the row named by a refusal, and every attribute of the resulting data format.",
            "The concrete texts are the harness's; ambiguous spellings (single digit, literal white space, thousands separator "
            "'space') are not tried; encodings are probed with a handful of names.",
            "DESIGN.md section 5, C11"),
    "C09": ("TLA+ spec CidLoad.tla (row dispatch of Cid.read as a machine over abstract rows vs. Sound / FirstOffending stated from "
            "the property): TLC exhaustive over base CIDs x exactly one defect of the catalogue at every applicable row x row-level "
            "rewrites; every behaviour replayed through Cid.read and create_cid_from_string with the concrete catalogue cells; "
            "executions of Cid.read recorded through hooks (sampled catalogue CIDs and the CIDs the repository's tests load) are "
            "validated against CidLoadTrace.tla",
            "TLC checks AcceptedIffSound, RejectionNamesTheRow and KeepsOrder; replay compares acceptance, the row named by the "
            "InterfaceError (location or text), field names and classes in order, check names and the format, in plain form, with "
            "lower-case blank-padded markers, with trailing cells and from CSV text.",
            "One concrete cell per catalogue entry (32 cell-level + 12 structural defects); base CIDs of 1-3 fields (thorough 1-6) "
            "and 0-2 checks (thorough 0-3); end-of-CID defects: no row asserted.",
            "DESIGN.md section 5, C09"),
    "C10": ("TLA+ spec Hostile.tla (enumeration of every CID cell kind x field / check type and every data cell x column type x 24 "
            "hostile classes x 4 formats, pairs in the thorough tier; legal outcome alphabet of Cid.read / rows / validate / command "
            "line): every enumerated case is run against the real code; truncated and byte-flipped ODS / XLSX / XLS containers are "
            "enumerated by the harness",
            "TLC enumerates the places and fixes the alphabet (ok | InterfaceError for a CID, ok | DataError for data, exit code "
            "0..3): any other exception type escaping Cid.read, cutplace.rows, cutplace.validate, and exit code 4 of "
            "applications.main, is a violation. Which string breaks which cell is found by running the code.",
            "The model contributes no verdict beyond the alphabet; 2-3 concrete strings per hostile class; container corruption at "
            "every 64th byte (thorough: 16th); hostile data cells in delimited and fixed form.",
            "DESIGN.md section 5, C10"),
    "C15": ("TLA+ spec Ods.tla (ODF encoder with every optional feature on/off + decoder machine of ods_rows): TLC exhaustive over "
            "tables x 32 feature subsets x sheets within bounds, simulation for larger tables; every document tree is serialised by "
            "an independent ODF writer and read through rowio.ods_rows and cutplace.rows; malformed files enumerated by the harness",
            "TLC checks ReadsTheLogicalTable (Decode(Encode(t, f)) = t) and MissingSheetIsRefused; each behaviour's tree is written "
            "to a real .ods and read back; not-a-zip, missing content.xml, content.xml cut at every tag boundary, invalid repeat "
            "counts and truncated archives must give DataFormatError. Known findings D4b / D4c (row repeats ignored) are "
            "reproduced by the ExpandRowRepeats = FALSE configuration.",
            "Bounds: alphabet {a, b, blank, tab, line break, XML-special, non-ASCII}; exhaustive 2x2 tables of 1-character cells and "
            "single cells of <= 3 characters x all 32 feature subsets; simulation up to 6 rows x 8 cells; the ODF writer is trusted.",
            "DESIGN.md section 5, C15"),
    "C16": ("TLA+ spec Excel.tla (Render per cell kind; 1900 date system computed two independent ways; excel_rows as a row "
            "machine with padding and sheet selection): TLC exhaustive over the cell pool and over ragged 2x2 sheets x 1..3 sheets x "
            "requested sheet 1..4; every workbook is written with xlsxwriter and read through rowio.excel_rows and cutplace.rows; "
            "string tables through XlsxRowWriter and back",
            "TLC checks ReadsTheRequestedSheet and DatesConsistent (closed-formula serial->civil mapping vs. counting month "
            "lengths on every date used); replay compares every cell text, the padding and the sheet that was read, and requires a "
            "data-format error for a missing sheet. The D3 counterexample is kept (ReadsRequestedSheet = FALSE).",
            "Cell pool: strings, whole numbers up to 2^53 as digit sequences, dyadic fractions with <= 4 fractional bits, booleans, "
            "18 boundary dates 1900-03-01..9999-12-31, 10 times of day; arbitrary floats are not decided (no floating point in TLC).",
            "DESIGN.md section 5, C16"),
    "C18": ("TLA+ spec Cli.tla (argument parsing, CID loading, one Cid for all files, sticky rejection flag, unreadable file ends "
            "the run): TLC exhaustive over argument states x CID states x every ordered list of <= 3 files over 6 kinds x 5 --until "
            "settings; every behaviour replayed through applications.main with real csv / ods / xlsx files",
            "TLC checks ExitCodeTable (the machine's exit code equals the order-independent table) and ZeroIffAllAccepted; replay "
            "compares the exit code (SystemExit code for argument errors) for CID and data stored as csv (all cases), ods and xlsx "
            "(sample; thorough all, plus subprocess runs); cutplace.validate on every file kind x limit ties the verdict to the API.",
            "File kinds are abstract (first offending row 0 / 2 / 3, missing, directory); --until in {absent, -1, 0, 2, 9}; when an "
            "unreadable and a rejected file meet, 3 is expected in either order.",
            "DESIGN.md section 5, C18"),
    "C19": ("TLA+ spec Sql.tla (sql_ansi_type + the four dialect ladders over symbolic numbers +-(2^k + d); column mapping for "
            "the other field types): TLC exhaustive over 4 dialects x all ordered pairs of 75 limits around every type boundary x "
            "empty flag, and field lists; every behaviour's CID is built and create_table_statement() parsed back",
            "TLC checks ColumnHoldsBothLimits and OneColumnPerFieldInOrder; replay judges every parsed column with real integers "
            "against the dialect's capacity table, and compares quoting, NOT NULL, decimal digits, varchar length and column order. "
            "The D11 counterexample (Transact-SQL tinyint for negative ranges) is kept and recorded as known finding.",
            "Symbolic limits k in {7, 8, 15, 16, 31, 32, 63}, d in -2..2, plus small numbers; ANSI / Oracle int never judged too "
            "small; 8 tabulated names for keyword quoting; only bounded Integer ranges.",
            "DESIGN.md section 5, C19"),
    "C17": ("TLA+ specs CidLoad.tla and Session.tla supply the expected interface definition and per-row verdicts (storage is not a "
            "variable of either model); every valid CID TLC generates is stored as csv / ods / xlsx and loaded with "
            "cutplace.Cid(path), every generated table is stored as delimited text / ods / xlsx under CIDs differing only in "
            "Format with columns of every field type",
            "Nine-fold replay against the specification's prediction: the three loaded definitions must equal the predicted one "
            "and each other attribute by attribute (format settings, fields with class / flag / length / rule, checks); per-row "
            "verdicts, end-of-data verdict and returned values must equal Session.tla's prediction in all three data storages.",
            "TLC decides nothing about storage itself (structural in the model); ragged tables are not compared; cells are written "
            "as strings; quick tier samples 400 tables.",
            "DESIGN.md section 5, C17"),
})

NOT_BUILT = "check not built yet in this round (planned: see DESIGN.md section 5)"


def main():
    head = subprocess.run(["git", "-C", "/repo", "log", "--format=%h %s"], stdout=subprocess.PIPE, universal_newlines=True).stdout
    hook_commits = [line.split()[0] for line in head.splitlines() if line.split(" ", 1)[1].startswith("verif:")]
    manifest = {
        "version": 1,
        "setup_cmd": "./check setup",
        "hooks": {
            "guard": "CUTPLACE_VERIF",
            "enable": "env CUTPLACE_VERIF=1 CUTPLACE_VERIF_TRACE=<ndjson file> (set by the checks themselves; hooks are no-ops otherwise)",
            "baseline_off_cmd": "/verif/tools/run_baseline.py",
            "source_commits": hook_commits,
            "add_only": True,
        },
        "engines": [
            {"name": "tlc", "path": "/opt/veriftools/tla/tla2tools.jar", "serves_properties": sorted(CLAIMED),
             "kind_free_text": "TLC 1.8 explicit-state model checker: exhaustive, -simulate, and trace validation of recorded executions"},
            {"name": "harness", "path": "/verif/harness", "serves_properties": sorted(CLAIMED),
             "kind_free_text": "Python conformance harness: concretises TLC behaviours into API calls on /repo's working tree, projects observations back; records traces behind CUTPLACE_VERIF=1"},
        ],
        "checks": [],
        "notes": "All checks: ./check <id> quick|thorough. Exit 2 = machinery failure (never a verdict about /repo). "
                 "Known findings: /verif/known_findings.json.",
        "not_applicable": [],
    }
    for property_id in ALL:
        if property_id in CLAIMED:
            technique, text, note, ref = CLAIMED[property_id]
            manifest["checks"].append({
                "property_id": property_id,
                "quick_cmd": "./check %s quick" % property_id,
                "thorough_cmd": "./check %s thorough" % property_id,
                "evidence_file": "/verif/evidence/%s.json" % property_id,
                "replay_cmd_template": "./check %s --replay {path}" % property_id,
                "engine": "tlc",
                "level_claimed": {"category": "model_checking", "text": text, "design_ref": ref},
                "level_note": note,
                "technique": technique,
            })
        else:
            manifest["not_applicable"].append({"property_id": property_id, "reason": NOT_BUILT})
    with open(os.path.join(VERIF, "MANIFEST.json"), "w", encoding="utf-8") as manifest_file:
        json.dump(manifest, manifest_file, indent=1)
        manifest_file.write("\n")


if __name__ == "__main__":
    main()
