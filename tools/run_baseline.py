#!/venv/bin/python
"""
Run the repository's test-suite with the verification guard OFF and compare
with the stable baseline of /root/.vp/BASELINE.json: every test listed in
stable_pass must still pass. Prints a summary; exit 0 iff none is missing.
"""
import json
import os
import subprocess
import sys
import tempfile
import xml.etree.ElementTree as ET

baseline = json.load(open("/root/.vp/BASELINE.json"))
env = dict(os.environ)
env.pop("CUTPLACE_VERIF", None)
env.pop("CUTPLACE_VERIF_TRACE", None)
with tempfile.TemporaryDirectory() as folder:
    junit = os.path.join(folder, "junit.xml")
    cmd = baseline["cmd"].replace("<file>", junit)
    process = subprocess.run(cmd, shell=True, env=env, stdout=subprocess.PIPE, stderr=subprocess.STDOUT, universal_newlines=True)
    passed = set()
    failed = set()
    for case in ET.parse(junit).getroot().iter("testcase"):
        name = "%s::%s" % (case.get("classname"), case.get("name"))
        if any(child.tag in ("failure", "error", "skipped") for child in case):
            failed.add(name)
        else:
            passed.add(name)
stable = set(baseline["stable_pass"])
missing = sorted(stable - passed)
print("passed=%d failed=%d stable_baseline=%d missing_from_pass=%d" % (len(passed), len(failed), len(stable), len(missing)))
for name in missing:
    print("  NOT PASSING:", name)
print(process.stdout.strip().splitlines()[-1])
sys.exit(0 if not missing else 1)
