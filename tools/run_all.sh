#!/bin/bash
# usage: tools/run_all.sh quick|thorough [jobs] -- every registered check of one tier, a few at a time; prints one line per property
tier=${1:-quick}
jobs=${2:-4}
cd "$(dirname "$0")/.."
mkdir -p work/all
for n in $(seq -w 1 20); do echo C$n; done | xargs -P "$jobs" -I{} sh -c "./check {} $tier > work/all/{}.$tier.log 2>&1; echo \"{} exit=\$? \$(grep -c '^VIOLATION' work/all/{}.$tier.log) violation line(s) \$(tail -1 work/all/{}.$tier.log | cut -c1-160)\""
