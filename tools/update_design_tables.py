#!/venv/bin/python
"""Regenerate the tables of DESIGN.md that are derived from files: section 7 (known_findings.json) and section 11 (seeded/*/meta.json)."""
import glob
import json
import os
import re

path = "/verif/DESIGN.md"
text = open(path).read()
findings = json.load(open("/verif/known_findings.json"))["findings"]
rows = ["| %s | %s | %s | %s |" % (f["id"], f["property"], f["what"].replace("|", "/"),
                                  ("fixed by `%s`" % f.get("commit")) if f["status"] == "fixed" else
                                  "**open finding** (signature `%s`)" % f.get("signature")) for f in findings]
text = re.sub(r"(\| # \| property \| what failed \| handling \|\n\|---\|---\|---\|---\|\n)(?:\|.*\n)*", lambda m: m.group(1) + "\n".join(rows) + "\n", text)
seed_rows = []
for meta_path in sorted(glob.glob("/verif/seeded/*/meta.json")):
    meta = json.load(open(meta_path))
    name = os.path.basename(os.path.dirname(meta_path))
    first = ""
    for line in meta.get("needs_to_manifest", "").strip().splitlines():
        line = line.strip("#-* `").strip()
        if len(line) > 25 and not re.match(r"^(C\d\d|Seed|seed)", line):
            first = line
            break
    seed_rows.append("| `%s` | %s | %s | %s |" % (name, meta["property"], first[:230].replace("|", "/"), meta["caught_by"].replace("|", "/")))
text = re.sub(r"(\| seeded change \(`seeded/<name>/`\) \| property \| what it needs to manifest \| caught by \|\n\|---\|---\|---\|---\|\n)(?:\|.*\n)*",
              lambda m: m.group(1) + "\n".join(seed_rows) + "\n", text)
open(path, "w").write(text)
print(len(rows), "findings,", len(seed_rows), "seeded changes")
