#!/venv/bin/python
"""Regenerate the tables of DESIGN.md that are derived from files: section 7 (known_findings.json) and section 11 (seeded/*/meta.json)."""
import glob
import json
import os
import re

path = "/verif/DESIGN.md"
text = open(path).read()
findings = json.load(open("/verif/known_findings.json"))["findings"]
rows = ["| %s | %s | %s | %s |" % (f["id"], f["property"], f["what"].replace("|", "/"),
                                  ("fixed by `%s`" % f.get("commit")) if f["status"] == "fixed" else
                                  "**open finding** (signature `%s`)" % f.get("signature")) for f in findings]
text = re.sub(r"(\| # \| property \| what failed \| handling \|\n\|---\|---\|---\|---\|\n)(?:\|.*\n)*", lambda m: m.group(1) + "\n".join(rows) + "\n", text)
seed_rows = []
for meta_path in sorted(glob.glob("/verif/seeded/*/meta.json")):
    meta = json.load(open(meta_path))
    name = os.path.basename(os.path.dirname(meta_path))
    first = ""
    for line in meta.get("needs_to_manifest", "").strip().splitlines():
        line = line.strip("#-* `").strip()
        if len(line) > 25 and not re.match(r"^(C\d\d|Seed|seed)", line):
            first = line
            break
    seed_rows.append("| `%s` | %s | %s | %s |" % (name, meta["property"], first[:230].replace("|", "/"), meta["caught_by"].replace("|", "/")))
text = re.sub(r"(\| seeded change \(`seeded/<name>/`\) \| property \| what it needs to manifest \| caught by \|\n\|---\|---\|---\|---\|\n)(?:\|.*\n)*",
              lambda m: m.group(1) + "\n".join(seed_rows) + "\n", text)
# section 5: one "as built" line per property, from the evidence of the last quick run
updated = 0
for evidence_path in sorted(glob.glob("/verif/evidence/C*.json")):
    evidence = json.load(open(evidence_path))
    if evidence.get("tier") != "quick":
        continue
    coverage = evidence["coverage"]
    runs = coverage.get("tlc_runs", [])
    line = ("* **As built (quick tier, last run):** %s distinct states / %s transitions over %d TLC run(s); %s behaviours replayed into "
            "the code, %s recorded traces validated; %d s. TLC runs: %s." % (
                coverage.get("states"), coverage.get("transitions"), len(runs), coverage.get("behaviours_replayed_into_code"),
                coverage.get("recorded_traces_validated_by_tlc", 0), round(evidence.get("wall_s", 0)),
                "; ".join("%s (%s states)" % (str(run.get("run", ""))[:70], run.get("distinct_states")) for run in runs)))
    pattern = r"(### %s .*\n)\* \*\*As built \(quick tier, last run\):\*\*.*\n" % evidence["property_id"]
    text, count = re.subn(pattern, lambda m: m.group(1) + line.replace("\\", "\\\\") + "\n", text)
    updated += count
open(path, "w").write(text)
print(updated, "as-built lines;", end=" ")
print(len(rows), "findings,", len(seed_rows), "seeded changes")
